#!/venv/bin/python
"""Regenerate known_findings.json from the tables below (committed; never written at run time)."""
import json, os

HERE = os.path.dirname(os.path.abspath(__file__))

C16_WHAT = ("RestartObserver rewrites its file in place (seek(0); truncate(); write; flush): a process death or failing "
            "write between truncate() and the end of flush() leaves an empty or partial restart file that no longer loads "
            "(io/restart.py RestartObserver.__call__); no atomic rewrite is possible through a single file object")
C04_WHAT = ("GrandCanonical.revert_state overwrites calc.atoms with a copy of the reverted atoms, so a calculator that keeps "
            "per-atom internal state (neighbour list) is never told that the atom count changed back; its next evaluation "
            "after a rejected insertion/deletion raises ValueError (mc/gcmc.py revert_state). History: any rejected exchange "
            "followed by any trial, with ASE LennardJones or a neighbour-list style calculator")
C05_WHAT = ("several particles inserted by ONE composite exchange call (exch*n or exch+exch -> CompositeExchangeMove) are "
            "announced to the moves as one block of added atoms, so all of them receive the same new label and later count "
            "as a single deletable particle (moves/exchange.py CompositeExchangeMove.__call__ + on_atoms_changed)")

OPEN = []
i = 1
for kind in ("clean", "torn", "torn_in", "oserror"):
    for window in ("truncate>write", "write>flush"):
        OPEN.append((f"KF-C16-{i}", "C16",
                     f"C16|restart_unloadable_after_crash|file=restart|kind={kind}|window={window}|inside=restart",
                     f"{C16_WHAT} [death flavour: {kind}; window: {window}]"))
        i += 1
OPEN += [
    ("KF-C04-1", "C04", "C04|calculator_unusable|driver=GrandCanonical|calc=ase_lj|type=ValueError|history=after_reverted_atom_count_change", C04_WHAT + " [ASE LennardJones]"),
    ("KF-C04-2", "C04", "C04|calculator_unusable|driver=GrandCanonical|calc=nlstub|type=ValueError|history=after_reverted_atom_count_change", C04_WHAT + " [neighbour-list stub]"),
    ("KF-C05-1", "C05", "C05|distinct_particles_share_label|labels_of=ExchangeMove|driver=GrandCanonical|move=composite_exch", C05_WHAT + " [labels of the exchange move]"),
    ("KF-C05-2", "C05", "C05|distinct_particles_share_label|labels_of=DisplacementMove|driver=GrandCanonical|move=composite_exch", C05_WHAT + " [labels of displacement moves]"),
]

FB_WHAT = ("ForceBias and AdaptiveForceBias accept restart_file and write a restart document, but offer no from_dict "
           "(and their to_dict carries no atoms), so the simulation cannot be rebuilt from the file (mc/fbmc.py)")
OPEN += [
    ("KF-C07-1", "C07", "C07|resume_failed|driver=ForceBias|type=NoFromDict|where=-|recovery=inprocess", FB_WHAT),
    ("KF-C07-2", "C07", "C07|resume_failed|driver=AdaptiveForceBias|type=NoFromDict|where=-|recovery=inprocess", FB_WHAT),
    ("KF-C08-1", "C08", "C08|cannot_rebuild|class=ForceBias|type=NoFromDict|where=?", FB_WHAT),
    ("KF-C08-2", "C08", "C08|cannot_rebuild|class=AdaptiveForceBias|type=NoFromDict|where=?", FB_WHAT),
]

OPEN += [
    ("KF-C03-1", "C03", "C03|independent_exchange_moves_in_one_trial_corrupt_bookkeeping|driver=GrandCanonical|table=plain_composite_of_exchange_moves",
     "a plain CompositeMove holding two independently deciding ExchangeMove objects (the documented way to give each its own "
     "bias; also reachable as (disp + exch) + exch) can insert and then delete, or delete twice, in ONE trial; the exchange "
     "context keeps one flat list of added and one of deleted indices (and the moves' labels are only updated after the "
     "trial), so the numberings mix: rejected trials raise IndexError/ValueError in revert_state/reinsert_atoms or restore "
     "the wrong atoms, accepted ones misalign labels (mc/contexts.py ExchangeContext, moves/exchange.py). Delete-then-insert "
     "in one trial (a swap) works and is exercised by the other checks"),
]

OPEN += [
    ("KF-C02-1", "C02", "C02|particle_counter_wrong_after_label_merge|driver=GrandCanonical|table=composite_exchange",
     "consequence of KF-C05-1: after one composite exchange call inserted several particles under one label, deleting that "
     "label removes all of them while number_of_exchange_particles drops by one; every later insertion/deletion decision "
     "uses the wrong N in V/(Lambda^3 (N+1)) resp. Lambda^3 N/V (moves/exchange.py CompositeExchangeMove.__call__: "
     "particle_delta -= len(np.unique(deleted_labels))). Visible only on marginal decisions; the check pins one such history"),
]

# (property, repo commit, what failed, signatures the check printed on the pre-fix tree)
FIXED = [
    ("C06", "7361bba", "Driver(seed=0) replaced the seed by a random one: two runs with seed=0 diverged",
     ["C06|same_seed_different_trajectory|driver=Canonical|seed=zero|first_diff=verdict",
      "C06|same_seed_different_trajectory|driver=ForceBias|seed=zero|first_diff=state"]),
    ("C02", "43a93b0", "OverflowError from math.exp on strongly favourable trials in all five criteria",
     ["C02|criteria_raised|type=OverflowError|driver=Canonical", "C02|criteria_raised|type=OverflowError|driver=GrandCanonical",
      "C02|criteria_raised|type=OverflowError|driver=HamiltonianCanonical", "C02|criteria_raised|type=OverflowError|driver=Isobaric",
      "C02|criteria_raised|type=OverflowError|driver=Isotension"]),
    ("C02", "4a66374", "IsotensionCriteria subtracted the pressure from all nine stress components: hydrostatic stress != isobaric under shear",
     ["C02|wrong_decision|rule=isotension_hydrostatic|driver=Isotension|case=accepted_but_rule_rejects",
      "C02|wrong_decision|rule=isotension|driver=Isotension|case=rejected_but_rule_accepts"]),
    ("C01", "9e4ef1c", "Rotation passed radians to ASE's degree-based euler_rotate and drew Euler angles uniformly: biased orientations",
     ["C01|ensemble_average_wrong|row=dipole|observable=cos_theta|proposal=Rotation",
      "C01|ensemble_average_wrong|row=gc_ideal_gas|observable=cos2_theta|proposal=diatomic+Ball"]),
    ("C05", "95006bb", "DisplacementMove.default_label = 0 ignored for inserted atoms",
     ["C05|default_label_not_honoured|labels_of=DisplacementMove|default=0|driver=GrandCanonical|move=exch"]),
    ("C05", "30cc82f", "labels appended once per occurrence of a repeated move object (move*n, same object in two entries): labels lose alignment",
     ["C05|labels_length_mismatch|labels_of=DisplacementMove|driver=GrandCanonical|move=exch"]),
    ("C03", "1e8f889", "FixAtoms indices stayed shifted after a rejected deletion",
     ["C03|state_changed_by_nonaccepted_trial|component=constraints|driver=GrandCanonical|move=exch|verdict=False|constraints=FixAtoms"]),
    ("C15", "359d328", "run(0) followed by run(n) repeated the log header and the step-0 observer call",
     ["C15|split_run_differs|driver=Isobaric|split=zero_first|what=file:logfile",
      "C15|split_run_differs|driver=GrandCanonical|split=zero_first|what=observer_calls"]),
    ("C20", "f54fa68", "no driver ever delivered on_cell_changed",
     ["C20|cell_change_not_notified|driver=Isobaric", "C20|cell_change_not_notified|driver=Isotension"]),
    ("C11", "03ee56f", "m + (m + m) and m + m * 2 returned a plain CompositeMove (BaseMove.__add__ compared type(composite_move_type) with type(other)): a composite of n displacement moves built with the other parenthesisation could displace one particle twice and reported no count",
     ["C11|composite_of_displacement_moves_without_guarantees|driver=Canonical|move=composite_disp|constraints=none",
      "C11|composite_of_displacement_moves_without_guarantees|driver=GrandCanonical|move=composite_disp|constraints=none",
      "C11|composite_of_displacement_moves_without_guarantees|driver=Isobaric|move=composite_disp|constraints=FixAtoms"]),
    ("C07", "448f550", "Isobaric/Isotension built with default_displacement_move= on an empty box (N = 0) raised ZeroDivisionError in set_default_probability (1/(1+1/N)): the simulation and its restart file could not be created",
     ["C07|cannot_build_with_restart_file|driver=Isobaric|type=ZeroDivisionError", "C07|cannot_build_with_restart_file|driver=Isotension|type=ZeroDivisionError"]),
    ("C07", "1d8072d", "restart file written through MonteCarlo.to_dict (alias bound at class creation): subclass settings missing, Isobaric/Isotension.from_dict TypeError; ForceBias could not be written", []),
    ("C03", "1dd570a", "per-atom arrays carried only by the exchange template (initial_charges, tags, ...) stayed on the atoms after a vetoed or rejected insertion (and made ASE calculators recompute)",
     ["C03|state_changed_by_nonaccepted_trial|component=arrays:initial_charges:appeared|driver=GrandCanonical|move=exch|verdict=False|constraints=none",
      "C03|state_changed_by_nonaccepted_trial|component=arrays:tags:appeared|driver=GrandCanonical|move=exch|verdict=None|constraints=none"]),
    ("C08", "3bdfc53", "importing quansino.moves (or any quansino.moves.* module) first in a fresh interpreter raised ImportError (circular import through quansino.mc)",
     ["C08|import_fails_when_first|module=quansino.moves|type=ImportError", "C08|import_fails_when_first|module=quansino.moves.core|type=ImportError"]),
    ("C08", "9d46e94", "Isotension, HamiltonianCanonical, their criteria, CompositeExchangeMove and CompositeOperation were not registered: written but not rebuildable",
     ["C08|cannot_rebuild|class=CompositeOperation|type=KeyError|where=registry.py:get_class",
      "C07|resume_failed|driver=Isotension|type=KeyError|where=registry.py:get_class|recovery=inprocess"]),
    ("C08", "e292c5b", "to_dict dropped mask, scale_atoms, max_attempts, Verlet settings, CompositeExchangeMove bias, Isotension external stress; HamiltonianDisplacementMove not rebuildable",
     ["C08|configuration_lost|class=IsotropicDeformation|attrs=mask", "C08|configuration_lost|class=Verlet|attrs=apply_constraints,dt,max_steps",
      "C08|configuration_lost|class=DisplacementMove|attrs=max_attempts", "C08|cannot_rebuild|class=HamiltonianDisplacementMove|type=TypeError|where=registry.py:get_typed_class",
      "C07|resumed_run_diverges|driver=Isobaric|first_diff=arrays|recovery=inprocess"]),
    ("C03", "2c10fec", "CompositeOperation.calculate raised ValueError when summing a (1,3) and an (n,3) result (e.g. Ball + Rotation on a molecule)", []),
]


def main():
    findings = [{"id": a, "property": b, "status": "open", "signature": c, "what": d} for a, b, c, d in OPEN]
    for n, (prop, commit, what, sigs) in enumerate(FIXED, 1):
        findings.append({"id": f"FX-{n:02d}", "property": prop, "status": "fixed", "commit": commit,
                         "signature": sigs[0] if sigs else "", "signatures_before_fix": sigs, "what": what,
                         "line": f"fixed: property={prop} {commit} {what}"})
    doc = {"comment": "Genuine defects. 'open' entries are recorded rather than repaired: a check prints KNOWN-FINDING for a "
                      "violation whose signature equals an open entry's signature exactly, and VIOLATION for anything else. "
                      "'fixed' entries document repairs committed to /repo (fix: commits) and suppress nothing. "
                      "This file is never written at run time.",
           "fixed": [f["line"] for f in findings if f["status"] == "fixed"],
           "findings": findings}
    with open(os.path.join(HERE, "known_findings.json"), "w") as f:
        json.dump(doc, f, indent=1)
    print(len(OPEN), "open,", len(FIXED), "fixed")


if __name__ == "__main__":
    main()
