"""The history campaign: generated Monte Carlo deployments stepped trial by trial under a
fault plan (verdict tape, veto tape, parameter tape, pre-selected targets).  C02, C03,
C04, C05, C11, C12 and C20 ride on it with their own monitor and generator flavour.
"""
from __future__ import annotations

import copy
import random

from simkit import gen
from simkit.engine import Campaign
from simkit.world import World, make_world, spec_kind


# --------------------------------------------------------------------------------------
# generation
# --------------------------------------------------------------------------------------
def _molecule_positions(rnd, k):
    pos = [[0.0, 0.0, 0.0]]
    for _ in range(k - 1):
        pos.append([round(rnd.uniform(-0.8, 0.8), 4) for _ in range(3)])
    return pos


_DEFAULT_NAMES = {"disp": "default_displacement_move", "cell": "default_cell_move", "exch": "default_exchange_move"}


def _constructor_route(rnd, driver, moves):
    """Hand elementary moves to the driver's constructor (default_*_move=) instead of add_move: they get the default
    names, default criteria and default probabilities; the user may then change the entry's probability."""
    def refs(m):
        if m["type"] == "ref":
            yield m["of"]
        for x in m.get("items", []) + ([m["item"]] if "item" in m else []):
            yield from refs(x)
    referenced = {r for e in moves for r in refs(e["move"])}
    allowed = {"Canonical": ("disp",), "Isobaric": ("disp", "cell"), "Isotension": ("disp", "cell"),
               "GrandCanonical": ("disp", "exch")}.get(driver, ())
    used = set()
    for e in moves:
        t = e["move"]["type"]
        if (t in allowed and t not in used and "criteria" not in e and e.get("name") not in referenced
                and not e.get("minimum_count") and e.get("interval", 1) == 1):
            used.add(t)
            e["name"] = _DEFAULT_NAMES[t]
            e["via"] = "constructor"
            if rnd.random() < 0.4:
                e.pop("probability", None)  # keep the driver's default probability


def gen_history(rnd: random.Random, flavor: dict) -> dict:
    """flavor keys: drivers, calc_styles, scale ('moderate'|'extreme'), constraints (prob),
    arrays (prob), p_force, p_veto, composites (prob), extended (prob), bare (prob),
    param_tape (prob), preselect (prob), max_atoms, steps_max"""
    driver = rnd.choice(flavor["drivers"])
    scale = rnd.choice(flavor.get("scales", ["moderate"]))
    cell = gen.gen_cell(rnd, triclinic=flavor.get("triclinic", 0.4))
    sc = {"driver": driver, "seed": rnd.randint(1, 2**31 - 1)}
    T = gen.gen_temperature(rnd, scale)
    params = {"temperature": T, "max_cycles": rnd.randint(1, flavor.get("cycles_max", 4))}
    cons_kind = None
    if rnd.random() < flavor.get("constraints", 0.3):
        cons_kind = rnd.choice(flavor.get("constraint_kinds", ["fixatoms", "fixcom", "fixatoms+fixcom"]))
    arrays_p = flavor.get("arrays", 0.5)
    moves = []
    comp_p = flavor.get("composites", 0.3)
    ext_p = flavor.get("extended", 0.1)
    nmax = flavor.get("max_atoms", 8)

    def maybe_attempts(mspec, allow_big=True):
        r = rnd.random()
        if r < 0.5:
            mspec["max_attempts"] = rnd.choice([1, 2, 3, 20])
        if rnd.random() < flavor.get("via_copy", 0.1):
            mspec["via_copy"] = True  # the simulation gets copy(move) of the move the user configured
        return mspec

    def disp_move(labels, kinds=None):
        m = {"type": "disp", "labels": list(labels), "op": gen.gen_disp_op(rnd, True, kinds)}
        if rnd.random() < flavor.get("no_constraints_flag", 0.0):
            m["apply_constraints"] = False
        return maybe_attempts(m)

    def wrap_composite(m, kind):
        """with probability comp_p turn a leaf into m*n or m+m' ; returns (spec, needs_explicit_criteria)"""
        if rnd.random() < comp_p:
            if rnd.random() < 0.5:
                spec = {"type": "mul", "item": m, "n": rnd.randint(2, 3)}
                if kind == "exch" and rnd.random() < 0.5:
                    spec["composite_bias"] = rnd.choice([0.2, 0.35, 0.65, 0.8])  # the composite's own insert/delete bias
                return spec, True
            m2 = copy.deepcopy(m)
            if "op" in m2 and kind == "disp":
                m2["op"] = gen.gen_disp_op(rnd, False)
            items = [m, m2]
            if rnd.random() < 0.3:
                items.append(copy.deepcopy(m))
            spec = {"type": "sum", "items": items}
            if len(items) > 2 and rnd.random() < 0.5:
                spec["assoc"] = "right"  # m + (m' + m) instead of (m + m') + m
            elif rnd.random() < 0.15:
                spec = {"type": "sum", "items": [m, {"type": "mul", "item": m2, "n": 2}], "assoc": "right"}  # m + m' * 2
            if kind == "exch" and rnd.random() < 0.5:
                spec["composite_bias"] = rnd.choice([0.2, 0.35, 0.65, 0.8])
            return spec, True
        return m, False

    if driver == "GrandCanonical":
        k = rnd.choice(flavor.get("template_sizes", [1, 1, 2, 3]))
        p0 = rnd.randint(0, max(0, min(4, nmax // k)))
        nfw = rnd.choice([0, 0, 1, 2]) if flavor.get("framework", True) else 0
        tnum = [rnd.choice(gen.SPECIES) for _ in range(k)]
        tpos = _molecule_positions(rnd, k)
        template = {"numbers": tnum, "positions": tpos, "cell": cell, "pbc": True, "arrays": {}}
        if rnd.random() < 0.3:
            template["arrays"]["tags"] = [rnd.randint(1, 3) for _ in range(k)]
        if rnd.random() < 0.3:
            template["arrays"]["initial_charges"] = [gen.rfloat(rnd, -1, 1, 3) for _ in range(k)]
        if rnd.random() < flavor.get("template_extra_arrays", 0.15):
            # several per-atom arrays the host atoms may lack (their creation order must not depend on anything but the input)
            template["arrays"]["vec2"] = [[gen.rfloat(rnd, -1, 1, 3), gen.rfloat(rnd, -1, 1, 3)] for _ in range(k)]
            if rnd.random() < 0.5:
                template["arrays"]["momenta"] = [[gen.rfloat(rnd, -1, 1, 3) for _ in range(3)] for _ in range(k)]
        sc["exchange"] = template
        n = p0 * k + nfw
        atoms = gen.gen_atoms(rnd, n, cell, arrays=arrays_p, uid=True)
        # particles: first p0*k atoms in blocks of k copy the template species / geometry
        for p in range(p0):
            base = atoms["positions"][p * k]
            for j in range(k):
                atoms["numbers"][p * k + j] = tnum[j]
                atoms["positions"][p * k + j] = [round(base[c] + tpos[j][c], 6) for c in range(3)]
        plabels = [i // k for i in range(p0 * k)] + [-1] * nfw
        style = rnd.choice(["plain", "plain", "gaps", "shuffled"])
        if style != "plain" and p0:
            remap = sorted(rnd.sample(range(0, 3 * p0 + 3), p0))
            if style == "shuffled":
                rnd.shuffle(remap)
            plabels = [remap[x] if x >= 0 else x for x in plabels]
        if cons_kind and flavor.get("gc_fixatoms_always"):
            cons_kind = "fixatoms"  # the only constraint ASE keeps through deletions
        if cons_kind and nfw and "fixatoms" in cons_kind:
            atoms["constraints"] = [{"type": "FixAtoms", "indices": list(range(p0 * k, n))}]
        elif cons_kind and n and "fixatoms" in cons_kind:
            kfix = rnd.randint(1, max(1, n // 2))
            atoms["constraints"] = [{"type": "FixAtoms", "indices": sorted(rnd.sample(range(n), kfix))}]
        else:
            atoms["constraints"] = []
        sc["atoms"] = atoms
        mu = gen.rfloat(rnd, -0.5, 0.5, 4) if scale != "extreme" else gen.rfloat(rnd, -50, 50, 3)
        if rnd.random() < 0.08:
            mu = 0.0  # valid, and falsy
        params.update({"chemical_potential": mu, "number_of_exchange_particles": p0})
        if rnd.random() < flavor.get("accessible_volume", 0.2):
            params["accessible_volume"] = gen.logu(rnd, 10.0, 2000.0)
        exch = {"type": "exch", "labels": plabels,
                "op": {"type": "Translation" if (k == 1 and rnd.random() < 0.8) else "TranslationRotation"},
                "bias": rnd.choice(flavor.get("biases", [0.5, 0.5, 0.2, 0.8]))}
        if rnd.random() < flavor.get("default_label", 0.15):
            # a non-negative default on the exchange move itself would merge all new particles
            # into one deletable group by configuration; only do-not-touch defaults here
            exch["default_label"] = rnd.choice([-1, -3])
        maybe_attempts(exch)
        espec, ecomp = wrap_composite(exch, "exch") if flavor.get("exch_composites", True) else (exch, False)
        entry = {"name": "exch", "move": espec, "probability": gen.rfloat(rnd, 0.5, 3.0, 3)}
        if ecomp:
            entry["criteria"] = "GrandCanonical"
        moves.append(entry)
        if rnd.random() < 0.7:
            dl = list(plabels)
            if rnd.random() < 0.3 and p0:
                # the displacement move treats some particles as frozen
                frozen = set(rnd.sample(sorted(set(x for x in dl if x >= 0)), 1))
                dl = [-1 if x in frozen else x for x in dl]
            if rnd.random() < 0.25 and p0 >= 2:
                # ... or groups two exchangeable particles into one displaced group (a deletion then removes
                # only part of the group)
                order = sorted(set(x for x in dl if x >= 0))
                grp = {lab: order[(i // 2) * 2] for i, lab in enumerate(order)}
                dl = [grp.get(x, x) for x in dl]
            d = disp_move(dl)
            if rnd.random() < flavor.get("default_label", 0.15):
                d["default_label"] = rnd.choice([0, -1, 5])
            dspec, dcomp = wrap_composite(d, "disp")
            entry = {"name": "disp", "move": dspec, "probability": gen.rfloat(rnd, 0.5, 2.0, 3)}
            if dcomp:
                entry["criteria"] = "Canonical"
            moves.append(entry)
        # (not next to a composite exchange entry: particles that share a label through KF-C05 would make the swap
        #  delete two particles at once - a consequence of that finding, not a new fact)
        if not ecomp and rnd.random() < flavor.get("wrap_exch", 0.08):
            # "use the CompositeMove class with individual ExchangeMove objects" for per-move biases (docstring of
            # CompositeExchangeMove): a swap move - the first always deletes, the second always inserts
            e1, e2 = copy.deepcopy(exch), copy.deepcopy(exch)
            e1["bias"], e2["bias"] = 0.0, 1.0
            moves.append({"name": "xwrap", "criteria": "GrandCanonical", "probability": gen.rfloat(rnd, 0.5, 2.0, 3),
                          "move": {"type": "wrap", "items": [e1, e2]}})
        elif not ecomp and rnd.random() < flavor.get("wrap_exch_insert", 0.06):
            # two stand-alone exchange moves that both always insert, in one plain composite: two insertions per trial
            # through ExchangeMove.__call__ itself (not through the composite exchange move's own loop)
            e1, e2 = copy.deepcopy(exch), copy.deepcopy(exch)
            e1["bias"], e2["bias"] = 1.0, 1.0
            moves.append({"name": "xins", "criteria": "GrandCanonical", "probability": gen.rfloat(rnd, 0.5, 2.0, 3),
                          "move": {"type": "wrap", "items": [e1, e2]}})
        elif not ecomp and rnd.random() < flavor.get("wrap_exch_free", 0.0):
            # both members decide independently: insert-then-delete and delete-then-delete can happen in ONE trial
            sc["free_exchange_composite"] = True
            moves.append({"name": "xfree", "criteria": "GrandCanonical", "probability": gen.rfloat(rnd, 0.5, 2.0, 3),
                          "move": {"type": "wrap", "items": [copy.deepcopy(exch), copy.deepcopy(exch)]}})
        if ecomp and rnd.random() < flavor.get("leaf_alone", 0.2):
            # an elementary exchange move of the composite entry is ALSO registered on its own (the same object)
            moves.append({"name": "xalone", "move": {"type": "ref", "of": "exch", "leaf": 0},
                          "probability": gen.rfloat(rnd, 0.5, 2.0, 3)})
        if rnd.random() < ext_p:
            which = rnd.choice(["ref", "mixed", "nested_ref"])
            if which == "nested_ref" and any(m["name"] == "disp" and m["move"]["type"] == "disp" for m in moves):
                # the same object standalone in the table AND inside a composite
                moves.append({"name": "nested", "criteria": "Canonical",
                              "move": {"type": "sum", "items": [{"type": "ref", "of": "disp"}, disp_move(list(plabels))]}})
            elif which == "ref" or which == "nested_ref":
                moves.append({"name": "again", "move": {"type": "ref", "of": rnd.choice([m["name"] for m in moves])},
                              "criteria": "GrandCanonical"})
            else:
                moves.append({"name": "mixed", "criteria": "GrandCanonical",
                              "move": {"type": "sum", "items": [disp_move(list(plabels)), copy.deepcopy(exch)]}})
        sc["calc"] = {"style": rnd.choice(flavor["calc_styles"]),
                      "pot": gen.gen_pot(rnd, cell, scale if scale != "ideal" else "ideal", pair=True,
                                         field="initial_charges" in atoms["arrays"] or "initial_charges" in template["arrays"])}
    else:
        n = rnd.randint(1, nmax)
        if driver in ("Isobaric", "Isotension") and rnd.random() < flavor.get("empty_box", 0.04):
            n = 0  # an empty box is a legal isobaric system (N = 0)
        atoms = gen.gen_atoms(rnd, n, cell, arrays=arrays_p, uid=True, constraints=cons_kind)
        sc["atoms"] = atoms
        mol = rnd.choice([1, 1, 2, 3])
        nentries = rnd.randint(1, 2)
        for e in range(nentries):
            labels = gen.gen_labels(rnd, n, None, mol)
            d = disp_move(labels)
            dspec, dcomp = wrap_composite(d, "disp")
            entry = {"name": f"disp{e}", "move": dspec, "probability": gen.rfloat(rnd, 0.2, 2.0, 3)}
            if dcomp:
                entry["criteria"] = "Canonical"
            if rnd.random() < 0.2:
                entry["interval"] = rnd.randint(1, 3)
            moves.append(entry)
        if driver in ("Isobaric", "Isotension"):
            params["pressure"] = gen.logu(rnd, 1e-4, 1e-1) if scale != "extreme" else gen.logu(rnd, 1e-6, 1e2)
            if rnd.random() < 0.15:
                params["pressure"] = 0.0
                if rnd.random() < 0.5:
                    del params["pressure"]  # not handed over at all: the documented default (0) applies
            elif rnd.random() < 0.1:
                params["pressure"] = -params["pressure"]  # tension
            if driver == "Isotension":
                r = rnd.random()
                P = params.get("pressure", 0.0)
                if r < 0.35:
                    S = [[P, 0, 0], [0, P, 0], [0, 0, P]]  # purely hydrostatic
                elif r < 0.5:
                    S = None
                else:
                    a = [gen.rfloat(rnd, -0.05, 0.05, 5) for _ in range(6)]
                    S = [[a[0], a[3], a[4]], [a[3], a[1], a[5]], [a[4], a[5], a[2]]]
                params["external_stress"] = S
            c = {"type": "cell", "op": gen.gen_cell_op(rnd, mask_prob=flavor.get("mask_prob", 0.3)),
                 "scale_atoms": rnd.random() < 0.8}
            maybe_attempts(c)
            entry = {"name": "cell", "move": c, "probability": gen.rfloat(rnd, 0.3, 2.0, 3)}
            if rnd.random() < comp_p * 0.5:
                entry["move"] = {"type": "sum", "items": [c, copy.deepcopy(c)]}
                entry["criteria"] = driver
            moves.append(entry)
            if rnd.random() < ext_p:
                moves.append({"name": "mixed", "criteria": driver,
                              "move": {"type": "sum", "items": [disp_move(gen.gen_labels(rnd, n, "atomic")), copy.deepcopy(c)]}})
        if driver == "HamiltonianCanonical":
            h = {"type": "hmc", "dt": gen.logu(rnd, 0.05, 3.0), "nsteps": rnd.randint(1, 6)}
            if rnd.random() < 0.4:
                h["max_attempts"] = rnd.choice([1, 2, 3])
            moves.append({"name": "hmc", "move": h, "probability": gen.rfloat(rnd, 0.5, 2.0, 3)})
            if rnd.random() < 0.4:
                moves = [m for m in moves if m["name"] == "hmc"]
        sc["calc"] = {"style": rnd.choice(flavor["calc_styles"]),
                      "pot": gen.gen_pot(rnd, cell, scale, pair=True,
                                         field="initial_charges" in atoms["arrays"],
                                         cellterm=driver in ("Isobaric", "Isotension"))}
    if sc["calc"]["style"] == "ase_lj":
        sc["calc"] = {"style": "ase_lj", "lj": {"sigma": gen.rfloat(rnd, 0.8, 1.5, 3),
                                                "epsilon": gen.logu(rnd, 0.005, 0.1), "rc": 3.0}}
    if rnd.random() < flavor.get("bare", 0.0):
        moves.append({"name": "bare", "criteria": "bare", "verdicts": [rnd.random() < 0.6 for _ in range(5)],
                      "move": {"type": "bare", "kind": "disp", "results": [True, True, False]},
                      "probability": 1.0})
    if driver != "MonteCarlo" and len(sc["atoms"]["numbers"]) > 0 and rnd.random() < flavor.get("default_cycles", 0.12):
        # max_cycles is not handed over: the documented default (one cycle per atom present at construction) applies
        params["max_cycles"] = len(sc["atoms"]["numbers"])
        sc["omit"] = ["max_cycles"]
    # minimum counts (never over-committing)
    free = params["max_cycles"]
    for m in moves:
        if free > 0 and rnd.random() < 0.25:
            m["minimum_count"] = 1
            free -= 1
    if rnd.random() < flavor.get("constructor_route", 0.15):
        _constructor_route(rnd, driver, moves)
    sc["moves"] = moves
    sc["params"] = params
    if rnd.random() < flavor.get("predecessor", 0.1):
        sc["predecessor"] = True
    nsteps = rnd.randint(1, flavor.get("steps_max", 10))
    sc["steps"] = [{"n": nsteps}] if rnd.random() < 0.7 else [{"n": (nsteps + 1) // 2}, {"n": nsteps // 2}]
    ntr = nsteps * params["max_cycles"]
    faults = {"verdicts": {}, "veto": {}}
    pf = rnd.choice(flavor.get("p_force", [0.0, 0.3, 0.7]))
    pv = rnd.choice(flavor.get("p_veto", [0.0, 0.1, 0.3]))
    for t in range(ntr):
        if rnd.random() < pf:
            faults["verdicts"][str(t)] = rnd.random() < 0.5
        if rnd.random() < pv:
            faults["veto"][str(t)] = rnd.choice([-1, -1, 1, 2, 3])
    sc["faults"] = faults
    if any(v == -1 for v in faults["veto"].values()):
        # a veto-all trial runs max_attempts attempts: keep that bounded (10000 stays reachable
        # through runs without veto-all)
        def cap(m):
            if m["type"] in ("sum", "wrap"):
                for it in m["items"]:
                    cap(it)
            elif m["type"] == "mul":
                cap(m["item"])
            elif m["type"] in ("disp", "exch", "cell") and m.get("max_attempts", 10000) > 50:
                m["max_attempts"] = rnd.choice([1, 2, 3, 20])
        for e in moves:
            cap(e["move"])
    if rnd.random() < flavor.get("param_tape", 0.0):
        tape = {}
        for t in range(ntr):
            if rnd.random() < 0.3:
                ch = {"temperature": gen.gen_temperature(rnd, scale)}
                if driver in ("Isobaric", "Isotension") and rnd.random() < 0.5:
                    ch["pressure"] = gen.logu(rnd, 1e-4, 1e-1)
                if driver == "GrandCanonical" and rnd.random() < 0.5:
                    ch["chemical_potential"] = gen.rfloat(rnd, -0.5, 0.5, 4)
                if driver == "GrandCanonical" and rnd.random() < 0.2:
                    ch["accessible_volume"] = gen.logu(rnd, 10.0, 2000.0)
                tape[str(t)] = ch
        sc["param_tape"] = tape
    if rnd.random() < flavor.get("preselect", 0.0):
        tape = {}
        for t in range(ntr):
            if rnd.random() < 0.3:
                tape[str(t)] = {"pick": rnd.random(), "what": rnd.choice(["displace", "add", "delete"])}
        sc["preselect"] = tape
    return sc


# --------------------------------------------------------------------------------------
# shrinking (generic for Monte Carlo scenarios)
# --------------------------------------------------------------------------------------
def _drop_atom(sc, idx):
    c = copy.deepcopy(sc)
    a = c["atoms"]
    n = len(a["numbers"])
    if n <= 0:
        return None
    keep = [i for i in range(n) if i != idx]
    a["numbers"] = [a["numbers"][i] for i in keep]
    a["positions"] = [a["positions"][i] for i in keep]
    for k, v in list(a["arrays"].items()):
        a["arrays"][k] = [v[i] for i in keep]
    newc = []
    for con in a.get("constraints", []):
        if con["type"] == "FixAtoms":
            ind = [i - (i > idx) for i in con["indices"] if i != idx]
            if ind:
                newc.append({"type": "FixAtoms", "indices": ind})
        else:
            newc.append(con)
    a["constraints"] = newc

    def fix(m):
        if m["type"] in ("sum", "wrap"):
            for it in m["items"]:
                fix(it)
        elif m["type"] == "mul":
            fix(m["item"])
        elif "labels" in m:
            m["labels"] = [m["labels"][i] for i in keep]

    for e in c["moves"]:
        fix(e["move"])
    if c["driver"] == "GrandCanonical":
        # keep N consistent with the exchange move's labels
        for e in c["moves"]:
            def find(m):
                if m["type"] == "exch":
                    return m
                if m["type"] in ("sum", "wrap"):
                    for it in m["items"]:
                        r = find(it)
                        if r:
                            return r
                if m["type"] == "mul":
                    return find(m["item"])
                return None
            ex = find(e["move"])
            if ex:
                c["params"]["number_of_exchange_particles"] = len({x for x in ex["labels"] if x >= 0})
                break
    return c


def shrink_mc(sc, signature, violation):
    total = sum(s["n"] for s in sc["steps"])
    # 1. cut the run right after the violating step
    at = violation.get("at", "")
    if "step=" in at:
        try:
            st = int(at.split("step=")[1].split()[0]) - sc.get("step_count", 0)
            if 0 < st + 1 < total:
                c = copy.deepcopy(sc)
                c["steps"] = [{"n": st + 1}]
                yield c
        except ValueError:
            pass
    if len(sc["steps"]) > 1:
        c = copy.deepcopy(sc)
        c["steps"] = [{"n": total}]
        yield c
    if total > 1:
        c = copy.deepcopy(sc)
        c["steps"] = [{"n": total - 1}]
        yield c
        c = copy.deepcopy(sc)
        c["steps"] = [{"n": max(1, total // 2)}]
        yield c
    # 2. drop table entries
    if len(sc["moves"]) > 1:
        names = [e.get("name") for e in sc["moves"]]
        for i, e in enumerate(sc["moves"]):
            refs = [x for x in sc["moves"] if x["move"]["type"] == "ref" and x["move"]["of"] == e.get("name")]
            if refs:
                continue
            c = copy.deepcopy(sc)
            del c["moves"][i]
            yield c
    # 3. composites -> element
    for i, e in enumerate(sc["moves"]):
        m = e["move"]
        if m["type"] in ("sum", "wrap"):
            for j in range(len(m["items"])):
                if len(m["items"]) > 2:
                    c = copy.deepcopy(sc)
                    del c["moves"][i]["move"]["items"][j]
                    yield c
            c = copy.deepcopy(sc)
            c["moves"][i]["move"] = copy.deepcopy(m["items"][0])
            yield c
        if m["type"] == "mul":
            if m["n"] > 2:
                c = copy.deepcopy(sc)
                c["moves"][i]["move"]["n"] = 2
                yield c
            c = copy.deepcopy(sc)
            c["moves"][i]["move"] = copy.deepcopy(m["item"])
            yield c
    # 4. fault tapes
    f = sc.get("faults", {})
    for key in ("verdicts", "veto"):
        if f.get(key):
            c = copy.deepcopy(sc)
            c["faults"][key] = {}
            yield c
            items = sorted(f[key].items(), key=lambda kv: int(kv[0]))
            if len(items) > 1:
                half = len(items) // 2
                for part in (items[:half], items[half:]):
                    c = copy.deepcopy(sc)
                    c["faults"][key] = dict(part)
                    yield c
            if 1 < len(items) <= 6:
                for k2, _ in items:
                    c = copy.deepcopy(sc)
                    del c["faults"][key][k2]
                    yield c
    for key in ("param_tape", "preselect"):
        if sc.get(key):
            c = copy.deepcopy(sc)
            del c[key]
            yield c
    # 5. arrays / constraints
    for k in list(sc["atoms"].get("arrays", {})):
        if k == "uid":
            continue
        c = copy.deepcopy(sc)
        del c["atoms"]["arrays"][k]
        yield c
    if sc["atoms"].get("constraints"):
        c = copy.deepcopy(sc)
        c["atoms"]["constraints"] = []
        yield c
        if len(sc["atoms"]["constraints"]) > 1:
            for i in range(len(sc["atoms"]["constraints"])):
                c = copy.deepcopy(sc)
                del c["atoms"]["constraints"][i]
                yield c
    # 6. fewer atoms
    n = len(sc["atoms"]["numbers"])
    if n > 1:
        for idx in (n - 1, 0):
            c = _drop_atom(sc, idx)
            if c:
                yield c
    # 7. simpler cell / knobs
    cell = sc["atoms"]["cell"]
    if any(abs(cell[i][j]) > 0 for i in range(3) for j in range(3) if i != j):
        c = copy.deepcopy(sc)
        c["atoms"]["cell"] = [[cell[0][0], 0, 0], [0, cell[1][1], 0], [0, 0, cell[2][2]]]
        yield c
    if sc["params"].get("max_cycles", 1) > 1:
        c = copy.deepcopy(sc)
        c["params"]["max_cycles"] = 1
        c.pop("omit", None)
        for e in c["moves"]:
            e.pop("minimum_count", None)
        yield c
    for e_i, e in enumerate(sc["moves"]):
        if e.get("minimum_count"):
            c = copy.deepcopy(sc)
            c["moves"][e_i].pop("minimum_count")
            yield c
        if e.get("interval", 1) != 1:
            c = copy.deepcopy(sc)
            c["moves"][e_i].pop("interval")
            yield c
    if sc["calc"].get("style") not in ("caching",) and "pot" in sc["calc"]:
        c = copy.deepcopy(sc)
        c["calc"]["style"] = "caching"
        yield c
    if sc["calc"].get("pot", {}).get("A"):
        c = copy.deepcopy(sc)
        c["calc"]["pot"]["A"] = 0.0
        yield c


class HistoryCampaign(Campaign):
    flavor: dict = {}
    monitor_cls = None
    world_opts: dict = {}
    real_components = ["quansino drivers (MonteCarlo, Canonical, HamiltonianCanonical, Isobaric, Isotension, GrandCanonical)",
                       "quansino moves / operations / criteria / contexts", "numpy PCG64 stream of the driver",
                       "ASE Atoms, constraints, Calculator base class, LennardJones"]
    stub_components = ["analytic calculators (simkit.calcs)", "TapeCriteria verdict tape (user-side criteria wrapping the real one)",
                       "check_move veto probes", "SimGen recording generator around the driver's own PCG64"]

    def generate(self, rnd, tier, index):
        return gen_history(rnd, self.flavor)

    def make_monitors(self, sc):
        return [self.monitor_cls()]

    def execute(self, sc):
        disk = None
        if sc.get("files"):
            from simkit.simfs import SimDisk

            disk = SimDisk()
        w, failed = self.build_world(sc, self.make_monitors(sc), disk)
        if failed is not None:
            return failed
        res = w.run()
        if disk is not None:
            w.mc.close()
        return res.pack()

    def build_world(self, sc, mons, disk=None):
        """-> (world, None), or (None, packed result) when the package refuses the generated (legal) deployment while
        it is being assembled."""
        try:
            if sc.get("predecessor"):
                # an earlier simulation of the same kind lived in this process; its user edited its arrays in place
                # after it finished.  Nothing of that may reach the deployment under test.
                from simkit.world import scribble

                w0 = make_world({k: v for k, v in sc.items() if k not in ("files", "predecessor")}, (), self.world_opts)
                scribble(w0)
                w0.mc.close()
            return make_world(sc, mons, self.world_opts, disk), None
        except Exception as exc:  # noqa: BLE001
            from simkit.core import RunResult, classify_exception

            info = classify_exception(exc)
            res = RunResult()
            if info["harness"]:
                res.harness_error = info["text"]
            elif not self.on_build_exception(sc, info, res):
                res.foreign.append({k: info[k] for k in ("type", "where", "owner")} | {"phase": "build"})
                res.count("foreign_exception")
            return None, res.pack()

    def on_build_exception(self, sc, info, res) -> bool:
        return False

    def shrink_candidates(self, sc, signature, violation):
        return shrink_mc(sc, signature, violation)

    def sample_view(self, sc):
        return {"driver": sc["driver"], "natoms": len(sc["atoms"]["numbers"]),
                "moves": [{"name": e.get("name"), "kind": spec_kind(e["move"], sc), "criteria": e.get("criteria"),
                           "min": e.get("minimum_count", 0)} for e in sc["moves"]],
                "calc": sc["calc"].get("style"), "steps": sc["steps"], "cycles": sc["params"].get("max_cycles"),
                "constraints": [c["type"] for c in sc["atoms"].get("constraints", [])],
                "arrays": sorted(sc["atoms"].get("arrays", {})),
                "forced_verdicts": len(sc.get("faults", {}).get("verdicts", {})),
                "vetoes": len(sc.get("faults", {}).get("veto", {}))}

    def nontrivial(self, packed):
        return packed["stats"].get("trials", 0) > 0
