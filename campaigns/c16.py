"""C16 - output files are well-formed after every write and after a crash at any point.

One run = one generated deployment (driver + observers on a simulated disk).
 1. reference pass: after every completed observer call the durable bytes are checked
    (log: header + one flushed line per call; trajectory: one extxyz frame per call,
    append-only; restart: exactly one JSON document equal to the current state);
 2. crash enumeration: the process is killed at EVERY file-operation index, in every
    crash flavour (clean / torn buffer / torn inside the op) - evaluated on a clone of the
    disk state taken just before that op, through the same SimDisk code path;
 3. a sample of crash points (and every injected OSError) is re-executed for real, from
    scratch, with the fault plan armed; the outcome must equal the clone's (harness
    self-check) and is judged by the same invariants.
"""
from __future__ import annotations

import copy
import io
import json
import random

import numpy as np

from simkit import gen
from simkit.core import RunResult, Violation
from simkit.engine import Campaign
from simkit.simfs import PathPatch, SimCrash, SimDisk
from simkit.world import make_world

FRACS = (0.0, 0.37, 0.9)


class ObsProbe:
    """Stands in the observer table; marks call boundaries around the real observer."""

    def __init__(self, inner, name, sink):
        self.inner = inner
        self.name = name
        self.sink = sink

    @property
    def interval(self):
        return self.inner.interval

    def __call__(self):
        self.sink.begin(self.name)
        self.inner()
        self.sink.end(self.name)

    def close(self):
        self.inner.close()

    # everything else the driver may look at or set on an observer goes to the real one
    def __getattr__(self, attr):
        return getattr(object.__getattribute__(self, "inner"), attr)

    def __setattr__(self, attr, value):
        if attr in ("inner", "name", "sink"):
            object.__setattr__(self, attr, value)
        else:
            setattr(self.inner, attr, value)


ROLE_OF = {"default_logger": "log", "default_trajectory": "traj", "default_restart": "restart"}
ROLE_SHORT = {"logfile": "log", "trajectory": "traj", "restart_file": "restart"}


class Recorder:
    def __init__(self, disk, world_ref):
        self.disk = disk
        self.w = world_ref
        self.calls = []  # dicts: name, role, file, op_begin, op_end, durable, extra
        self.open_call = None

    def begin(self, name):
        self.disk.tag = name
        self.open_call = {"name": name, "role": ROLE_OF.get(name, "?"), "op_begin": self.disk.nops}

    def end(self, name):
        c = self.open_call
        c["op_end"] = self.disk.nops
        w = self.w[0]
        obs = w.mc.file_manager.observers[name].inner
        f = obs._file
        c["file"] = f.key
        c["durable"] = f.durable
        c["pending"] = f._pending_len()
        c["step"] = w.mc.step_count
        c["natoms"] = len(w.atoms)
        c["positions"] = np.array(w.atoms.positions, copy=True)
        if c["role"] == "restart":
            from ase.io.jsonio import encode

            c["state_json"] = json.loads(encode(w.mc))
        if c["role"] == "log":
            c["header"] = obs.create_header()
        self.calls.append(c)
        self.open_call = None
        self.disk.tag = ""


def _parse_traj(text):
    from ase.io import read

    if not text:
        return []
    return read(io.StringIO(text), index=":", format="extxyz")


class C16(Campaign):
    prop = "C16"
    level = "fault_enumeration"
    run_timeout_s = 240
    rule = ("one evaluation = one (deployment, crash point, crash flavour) outcome judged; deployments are "
            "generated (driver, observers, file modes, objects vs paths, buffer size, run length, forced "
            "insert/delete histories); crash points are ALL file-operation indices of each deployment; "
            "distinct = distinct (driver, file role, op kind before/after the crash, flavour, file mode, "
            "state grew/shrank) tuples; non-trivial = the crash landed inside or after at least one "
            "completed observer call")
    assumptions = [
        "crash = process death; bytes handed to the OS survive, user-space buffers do not (no power loss model)",
        "SimFile models Python text files ('a' = O_APPEND); validated against real files by selftest/fidelity.py",
        "the clone-evaluated crash outcome equals a real re-execution with the fault armed (checked on a sample every run)",
    ]
    real_components = ["quansino drivers/moves/criteria/contexts", "quansino Logger/TrajectoryObserver/RestartObserver",
                       "ASE Atoms, extxyz writer/reader, jsonio"]
    stub_components = ["SimFile/SimDisk (files)", "analytic calculator", "TapeCriteria verdict tape"]

    def budget(self, tier):
        return {"runs": 640, "wall_s": 170} if tier == "quick" else {"runs": 60000, "wall_s": 1500}

    # -- generation --------------------------------------------------------------------
    def generate(self, rnd: random.Random, tier: str, index: int) -> dict:
        driver = rnd.choice(["Canonical", "GrandCanonical", "GrandCanonical", "Isobaric", "MonteCarlo",
                             "ForceBias", "HamiltonianCanonical"])
        cell = gen.gen_cell(rnd)
        n = rnd.randint(1, 5)
        atoms = gen.gen_atoms(rnd, n, cell, arrays=0.3, uid=False)
        sc = {"driver": driver, "seed": rnd.randint(1, 2**31), "atoms": atoms,
              "calc": {"style": rnd.choice(["caching", "caching", "stateless"]),
                       "pot": gen.gen_pot(rnd, cell, cellterm=(driver == "Isobaric"))},
              "params": {"temperature": gen.gen_temperature(rnd)}}
        nsteps = rnd.randint(2, 8)
        sc["steps"] = [{"n": nsteps}] if rnd.random() < 0.6 else [{"n": nsteps // 2}, {"n": nsteps - nsteps // 2}]
        mode = rnd.choice(["a", "w"])
        files = {"logging_interval": rnd.choice([1, 1, 2, 3]), "logging_mode": mode}
        roles = ["logfile", "trajectory", "restart_file"]
        if driver == "ForceBias":
            roles = ["logfile", "trajectory"]  # no restart file here: that failure belongs to C07
        chosen = [r for r in roles if rnd.random() < 0.8] or [rnd.choice(roles)]
        how = rnd.choice(["object", "object", "path", "path", "mixed"])
        for r in chosen:
            files[r] = {"name": r + ".out", "as": how if how != "mixed" else rnd.choice(["object", "path", "observer"]), "mode": mode}
        sc["files"] = files
        objs = [r for r in ("trajectory", "restart_file") if r in files and files[r]["as"] == "object"]
        if len(sc["steps"]) > 1 and objs and rnd.random() < 0.35:
            # between the two runs the user hands the same open file objects to the simulation again
            sc["edits"] = [{"before_segment": 1, "reassign_outputs": objs}]
        sc["bufsize"] = rnd.choice([16, 200, 8192, 8192, 1 << 20])
        if driver == "ForceBias":
            sc["params"]["delta"] = gen.logu(rnd, 0.01, 0.3)
            return sc
        sc["params"]["max_cycles"] = rnd.randint(1, 3)
        lab = list(range(n))
        moves = []
        if driver == "MonteCarlo":
            moves.append({"name": "bare", "criteria": "bare", "verdicts": [True, False, True],
                          "move": {"type": "bare", "results": [True, True, False], "kind": "disp"}})
        elif driver == "HamiltonianCanonical":
            moves.append({"name": "hmc", "move": {"type": "hmc", "dt": gen.logu(rnd, 0.1, 2.0), "nsteps": rnd.randint(1, 4)}})
        else:
            moves.append({"name": "disp", "move": {"type": "disp", "labels": lab, "op": gen.gen_disp_op(rnd, False, ["Ball", "Box", "Sphere"])}})
        if driver == "Isobaric":
            sc["params"]["pressure"] = gen.logu(rnd, 1e-4, 1e-1)
            moves.append({"name": "cell", "move": {"type": "cell", "op": gen.gen_cell_op(rnd)}})
        if driver == "GrandCanonical":
            k = rnd.choice([1, 1, 2])
            sc["exchange"] = gen.gen_atoms(rnd, k, cell, arrays=0.0, uid=False, spread=0.1)
            sc["params"]["chemical_potential"] = gen.rfloat(rnd, -1, 1, 3)
            sc["params"]["number_of_exchange_particles"] = n
            moves.append({"name": "exch", "probability": 3.0, "move": {
                "type": "exch", "labels": lab, "op": {"type": "Translation" if k == 1 else "TranslationRotation"},
                "bias": rnd.choice([0.2, 0.5, 0.8])}})
            # forced accept runs make the serialized state grow and shrink
            ntr = nsteps * sc["params"]["max_cycles"]
            sc["faults"] = {"verdicts": {str(t): True for t in range(ntr) if rnd.random() < 0.7}}
        sc["moves"] = moves
        return sc

    def sample_view(self, sc):
        v = {k: sc[k] for k in ("driver", "files", "steps", "bufsize") if k in sc}
        v["natoms"] = len(sc["atoms"]["numbers"])
        v["moves"] = [m["name"] for m in sc.get("moves", [])]
        return v

    # -- execution ---------------------------------------------------------------------
    def _deploy(self, sc, plan=None, trace=None, disk=None):
        disk = disk or SimDisk(bufsize=sc.get("bufsize", 8192), plan=plan)
        if trace is not None:
            disk.trace = trace
        ref = [None]
        rec = Recorder(disk, ref)

        def wrap(world, _ed=None):
            obs = world.mc.file_manager.observers
            for name in list(obs):
                if not isinstance(obs[name], ObsProbe):
                    obs[name] = ObsProbe(obs[name], name, rec)

        with PathPatch(disk):
            w = make_world(sc, (), {"simgen": False, "probe_check_move": False, "on_user_edit_cb": wrap}, disk)
        ref[0] = w
        wrap(w)
        return disk, w, rec

    def execute(self, sc: dict) -> dict:
        res = RunResult()
        self.res = res
        self.sc = sc
        # ---- 1. reference pass
        trace = []
        disk, w, rec = self._deploy(sc, None, trace)
        r = w.run()
        if r.harness_error:
            res.harness_error = r.harness_error
            return res.pack()
        if w.aborted:
            info = w.aborted
            if info["owner"] == "C16":
                res.violations.append(Violation("C16", "exception", f"type={info['type']}|where={info['where']}|driver={sc['driver']}",
                                                info["text"], at=f"step={w.mc.step_count}"))
            else:
                res.foreign.append({k: info[k] for k in ("type", "where", "owner", "phase")})
            w.mc.close()
            return res.pack()
        res.stats.update({k: v for k, v in r.stats.items() if k in ("steps", "trials")})
        calls = rec.calls
        res.count("observer_calls", len(calls))
        self._check_reference(sc, calls, w)
        nops = disk.nops
        w.mc.close()
        if res.violations:
            return res.pack()
        grew = shrank = False
        sizes = [len(c["durable"]) for c in calls if c["role"] == "restart"]
        for a, b in zip(sizes, sizes[1:]):
            grew |= b > a
            shrank |= b < a
        self.tagbits = f"mode={sc['files'].get('logging_mode', 'a')}|grow={int(grew)}|shrink={int(shrank)}"
        # ---- 2. crash enumeration on clones
        only = sc.get("crash_only")
        points = [(only["at"], only["kind"], only.get("frac", 0.5))] if only else None
        if points is None:
            for k, fname, op, arg, _tag, clone in trace:
                for kind, frac in [("clean", 0.0)] + [("torn", f) for f in FRACS[1:]] + [("torn_in", f) for f in FRACS]:
                    d2 = clone.clone()
                    d2.plan = {"at": k, "kind": kind, "frac": frac}
                    d2.trace = None
                    try:
                        f2 = d2.files[fname]
                        if op == "write":
                            f2.write(arg)
                        else:
                            getattr(f2, op)(*([] if arg is None else [arg]))
                    except SimCrash:
                        pass
                    else:
                        res.harness_error = f"clone crash at op {k} did not die"
                        return res.pack()
                    self._judge_crash(sc, calls, trace, k, kind, frac, d2.snapshot(), real=False)
                    res.count("evaluations")
                    res.count(f"fault.crash_{kind}")
            # ---- 3. real re-execution of a sample + OSError injection
            rnd = random.Random(sc["seed"])
            sample = sorted(rnd.sample(range(nops), min(nops, 6)))
            points = []
            for k in sample:
                kind = rnd.choice(["clean", "torn", "torn_in"])
                points.append((k, kind, rnd.choice(FRACS)))
            for k in sorted(rnd.sample(range(nops), min(nops, 6))):
                points.append((k, "oserror", rnd.choice(FRACS)))
        if only is None and "logfile" in sc["files"]:
            self._interrupted_call(sc)
        if only is None:
            self._interrupted_step(sc)
        if only is None:
            self._resume_and_crash(sc, disk, calls)
            self._rerun_over_stale_files(sc, disk)
            self._continue_after_close(sc)
        for k, kind, frac in points:
            if k >= nops:
                continue
            disk2, w2, rec2 = self._deploy(sc, {"at": k, "kind": kind, "frac": frac})
            died = False
            try:
                w2.run()
            except SimCrash:
                died = True
            if kind == "oserror":
                ab = w2.aborted
                if not ab or ab["type"] != "OSError":
                    # the OSError was swallowed or something else happened: judge files anyway
                    res.count("probe.oserror_not_propagated")
                # interpreter exit: atexit handlers close the files
                w2.mc.close()
                res.count("fault.oserror")
            else:
                if not died:
                    res.harness_error = f"real crash at op {k} did not kill the run"
                    return res.pack()
                # cross-check clone == real
                kk, fname, op, arg, _tag, clone = trace[k]
                d2 = clone.clone()
                d2.plan = {"at": k, "kind": kind, "frac": frac}
                d2.trace = None
                try:
                    f2 = d2.files[fname]
                    f2.write(arg) if op == "write" else getattr(f2, op)(*([] if arg is None else [arg]))
                except SimCrash:
                    pass
                if d2.snapshot() != disk2.snapshot():
                    res.harness_error = f"clone and real crash outcomes differ at op {k} kind {kind}"
                    return res.pack()
                res.count("probe.clone_vs_real_agree")
                w2.mc.close()
            self._judge_crash(sc, calls, trace, k, kind, frac, disk2.snapshot(), real=True)
            res.count("evaluations")
        return res.pack()

    def _interrupted_call(self, sc):
        """Fault: a data source of the logger (a user field added through add_field) raises in the middle of one
        observer call; the run is then continued.  Every line in the log must still be complete."""
        res = self.res
        rnd = random.Random(sc["seed"] + 17)
        disk, w, rec = self._deploy(sc)
        mc = w.mc
        if getattr(mc, "default_logger", None) is None:
            mc.close()
            return
        n = sum(s["n"] for s in sc["steps"])
        li = sc["files"].get("logging_interval", 1)
        ncalls = n // li + 1
        fail_at = rnd.randint(1, ncalls)
        state = {"calls": 0, "ok": 0}

        def fragile():
            state["calls"] += 1
            if state["calls"] == fail_at:
                raise RuntimeError("simulated failure of a logged quantity")
            state["ok"] += 1
            return state["calls"]

        mc.default_logger.add_field("Fault", fragile, "{:>8d}")
        interrupted = 0
        import warnings
        warnings.simplefilter("ignore")
        for _ in range(3):
            left = n - mc.step_count
            try:
                if left > 0 or mc.step_count == 0:
                    mc.run(left)
                break
            except RuntimeError as e:
                if "simulated failure" not in str(e):
                    raise
                interrupted += 1
            except Exception:  # noqa: BLE001 - unrelated failure: not this sub-check's business
                mc.close()
                return
        header = mc.default_logger.create_header()
        mc.close()
        res.count("fault.observer_data_source_raises", interrupted)
        if not interrupted:
            return
        text = disk.files[sc["files"]["logfile"]["name"]].durable
        ncol = len(header.split())
        lines = text.split("\n")
        body = lines[:-1] if text.endswith("\n") else lines
        bad = [l for l in body[1:] if len(l.split()) != ncol or l == header]
        if body and body[0] != header or bad or not text.endswith("\n"):
            self._v("log_line_incomplete_after_interrupted_call", f"file=log|driver={sc['driver']}",
                    f"a logged quantity raised during call #{fail_at}; afterwards the log holds "
                    f"{'a line without newline; ' if not text.endswith(chr(10)) else ''}malformed rows {bad[:2]!r} (header has {ncol} columns)",
                    f"interrupted call #{fail_at}")
        res.cover.add(f"interrupted|{sc['driver']}|{sc['files'].get('logging_mode')}")

    def _interrupted_step(self, sc):
        """Fault: the run dies with an exception in the MIDDLE of a step (the calculator fails while a trial is being
        evaluated; the user's script - or the interpreter on its way out - then closes the simulation).  Whatever the
        package does on the way out, the restart file, once one has been written by an observer call, must still hold
        the state that the last completed observer call saved: a half-made trial is not a state that was saved."""
        res = self.res
        files = sc["files"]
        if "restart_file" not in files or sc["driver"] in ("ForceBias", "AdaptiveForceBias"):
            return
        rnd = random.Random(sc["seed"] + 29)
        disk, w, rec = self._deploy(sc)
        mc = w.mc
        calc = getattr(w.atoms, "calc", None)
        n = sum(s["n"] for s in sc["steps"])
        if mc.default_restart is None or calc is None or not hasattr(calc, "calculate") or n < 1:
            mc.close()
            return
        state = {"calls": 0, "fail_at": rnd.randint(2, 2 + 2 * n)}
        inner = calc.calculate

        def failing(*a, **k):
            state["calls"] += 1
            if state["calls"] == state["fail_at"]:
                raise RuntimeError("simulated failure of the calculator")
            return inner(*a, **k)

        calc.calculate = failing
        import warnings
        warnings.simplefilter("ignore")
        interrupted = False
        try:
            mc.run(n)
        except RuntimeError as e:
            interrupted = "simulated failure of the calculator" in str(e)
        except Exception:  # noqa: BLE001 - unrelated failure: not this sub-check's business
            pass
        try:
            mc.close()
        except Exception:  # noqa: BLE001
            return
        saved = [c for c in rec.calls if c["role"] == "restart"]
        if not interrupted or not saved:
            return
        res.count("fault.calculator_raises_mid_step")
        res.count("evaluations")
        cur = disk.files[files["restart_file"]["name"]].durable
        try:
            ok = json.loads(cur) == saved[-1]["state_json"]
            why = "loads, but to a state that no observer call saved"
        except Exception as e:  # noqa: BLE001
            ok, why = False, f"{type(e).__name__}: {str(e)[:100]}; {len(cur)} chars on disk"
        if not ok:
            self._v("restart_not_a_saved_state_after_interrupted_run", f"file=restart|driver={sc['driver']}",
                    f"the calculator raised during evaluation #{state['fail_at']} (inside a step, {len(saved)} restart calls "
                    f"completed before); afterwards the restart file {why}", f"calculator failure at evaluation #{state['fail_at']}")
        res.cover.add(f"interrupted_step|{sc['driver']}|{files.get('logging_mode')}")

    def _continue_after_close(self, sc):
        """Fault: the user closes the simulation (its files) and then runs the same object again.  Whether the package
        refuses that or supports it, what the first run wrote must survive: the log keeps its header and lines, the
        trajectory its frames."""
        res = self.res
        disk, w, _rec = self._deploy(sc)
        w.run()
        if w.aborted or w.result.harness_error:
            w.mc.close()
            return
        w.mc.close()
        before = {n: f.durable for n, f in disk.files.items()}
        outcome = "continued"
        try:
            with PathPatch(disk):
                for step in w.mc.irun(2):
                    if hasattr(step, "__iter__"):
                        for _ in step:
                            pass
        except SimCrash:
            raise
        except Exception as e:  # noqa: BLE001 - refusing to continue on closed files is a legitimate answer
            outcome = "refused:" + type(e).__name__
        try:
            w.mc.close()
        except Exception:  # noqa: BLE001
            pass
        res.count("fault.run_again_after_close")
        res.count("evaluations")
        roles = {v["name"]: k for k, v in sc["files"].items() if isinstance(v, dict)}
        for n, text in before.items():
            role = roles.get(n, n)
            if role not in ("logfile", "trajectory") or not text:
                continue
            got = disk.files[n].durable
            if not got.startswith(text):
                how = sc["files"].get(role, {}).get("as", "?")
                self._v("output_of_first_run_destroyed_by_run_after_close", f"file={ROLE_SHORT.get(role, role)}|given_as={how}|mode={sc['files'].get('logging_mode', 'a')}",
                        f"run, close, run again ({outcome}): {n} held {len(text)} characters, now {len(got)}, starting with {got[:60]!r}", "run_after_close")

    def _rerun_over_stale_files(self, sc, disk):
        """Fault: the same script is executed a second time in 'w' mode in a directory that still holds the files of the
        first execution.  Whatever the observers are handed (paths or file objects), the files must end up exactly as
        after a fresh run: one header plus one line / one frame per call, one restart document."""
        mode = sc["files"].get("logging_mode", "a")
        from simkit.simfs import SimFile

        res = self.res
        final = {n: f.durable for n, f in disk.files.items()}
        if not any(final.values()):
            return
        d2 = SimDisk(bufsize=sc.get("bufsize", 8192))
        for n, text in final.items():
            f = SimFile(d2, n, mode, durable=text)
            f._closed = True
            d2.files[n] = f
        _, w2, _rec = self._deploy(sc, disk=d2)
        w2.run()
        w2.mc.close()
        res.count("fault.rerun_over_stale_files")
        res.count("evaluations")
        for n, text in final.items():
            got = d2.files[n].durable
            role = {v["name"]: k for k, v in sc["files"].items() if isinstance(v, dict)}.get(n, n)
            how = sc["files"].get(role, {}).get("as", "?") if isinstance(sc["files"].get(role), dict) else "?"
            if mode == "w":
                if got != text:
                    self._v("stale_content_survives_w_mode", f"file={ROLE_SHORT.get(role, role)}|given_as={how}",
                            f"second execution in 'w' mode over the files of the first: {n} holds {len(got)} characters, a fresh "
                            f"run gives {len(text)}; starts with {got[:80]!r}", "rerun")
            elif role in ("logfile", "trajectory"):
                # append mode: what the first execution wrote stays, followed by exactly what a run writes into an
                # empty file (its header and one line per call / one frame per call)
                if got != text + text:
                    what = "earlier_bytes_changed" if not got.startswith(text) else "appended_part_differs_from_a_fresh_run"
                    self._v("rerun_in_append_mode_" + what, f"file={ROLE_SHORT.get(role, role)}|given_as={how}",
                            f"second execution in 'a' mode over the files of the first: {n} holds {len(got)} characters, expected "
                            f"{2 * len(text)} (first execution's bytes + a fresh run's bytes); the appended part starts with "
                            f"{got[len(text):len(text) + 80]!r}", "rerun")

    def _resume_and_crash(self, sc, disk, calls):
        """A later process resumes from the restart file, re-using the same paths in append mode, and dies at every
        file operation of its own: what the first process completed must survive, and the restart file must keep
        loading to a state that was saved."""
        files = sc["files"]
        if (sc["driver"] in ("ForceBias", "AdaptiveForceBias", "MonteCarlo") or "restart_file" not in files
                or files.get("logging_mode") != "a" or any(files[r].get("as") != "path" for r in ("logfile", "trajectory", "restart_file") if r in files)):
            return
        import io as _io
        import warnings

        from ase.io.jsonio import read_json

        from simkit import calcs
        from simkit.world import driver_class

        res = self.res
        warnings.simplefilter("ignore")
        d2 = disk.clone()
        d2.dead = False
        base = {n: f.durable for n, f in d2.files.items()}
        text = base.get(files["restart_file"]["name"], "")
        if not text:
            return
        for f in d2.files.values():
            f._closed = True
        trace = []
        d2.trace = trace
        d2.plan = {}
        kw = {r: "/simfs/" + files[r]["name"] for r in ("logfile", "trajectory", "restart_file") if r in files}
        saved_states = [json.loads(text)]
        try:
            with PathPatch(d2):
                data = read_json(_io.StringIO(text))
                mc2 = driver_class(sc["driver"]).from_dict(data, logging_mode="a", logging_interval=files.get("logging_interval", 1), **kw)
            mc2.atoms.calc = calcs.make_calc(sc["calc"])
            ref = [None]

            class W:  # minimal stand-in for the Recorder
                pass
            wobj = W()
            wobj.mc, wobj.atoms = mc2, mc2.atoms
            ref[0] = wobj
            rec = Recorder(d2, ref)
            obs = mc2.file_manager.observers
            for name in list(obs):
                obs[name] = ObsProbe(obs[name], name, rec)
            for _ in mc2.irun(3):
                for __ in _:
                    pass
            mc2.close()
        except Exception as e:  # noqa: BLE001
            from simkit.core import classify_exception
            info = classify_exception(e)
            if info["harness"]:
                res.harness_error = info["text"]
            return  # failures to resume belong to C07
        res.count("fault.resume_then_crash")
        role_of_file = {files[r]["name"]: {"logfile": "log", "trajectory": "traj", "restart_file": "restart"}[r]
                        for r in ("logfile", "trajectory", "restart_file") if r in files}
        for k, fname, op, arg, _tag, clone in trace:
            for kind, frac in (("clean", 0.0), ("torn_in", 0.37)):
                c2 = clone.clone()
                c2.plan = {"at": k, "kind": kind, "frac": frac}
                c2.trace = None
                try:
                    if op == "open_truncate":
                        c2._op(c2.files[fname], "open_truncate", None)
                        c2.files[fname].durable = ""
                    elif op == "write":
                        c2.files[fname].write(arg)
                    else:
                        getattr(c2.files[fname], op)(*([] if arg is None else [arg]))
                except SimCrash:
                    pass
                snap = c2.snapshot()
                res.count("evaluations")
                done_b = [c for c in rec.calls if c["op_end"] <= k]
                inprog = next((c for c in rec.calls if c["op_begin"] <= k < c["op_end"]), None)
                for fn, role in role_of_file.items():
                    cur = snap.get(fn, "")
                    last_b = next((c for c in reversed(done_b) if c["file"] == fn), None)
                    if role in ("log", "traj"):
                        must = last_b["durable"] if last_b else base.get(fn, "")
                        if not cur.startswith(must):
                            self._v("completed_output_lost_after_crash", f"file={role}|kind={kind}|window=resumed:{op}|inside=resume",
                                    f"a resumed process died at its file operation {k} ({op}); {len(must)} chars that were complete are no longer a prefix of the {len(cur)} on disk",
                                    f"resume op {k}")
                    else:
                        allowed = [saved_states[0]] + [c["state_json"] for c in rec.calls if c["file"] == fn and c["op_begin"] <= k]
                        try:
                            ok = json.loads(cur) in allowed
                            why = "loads, but to a state that was never saved"
                        except Exception as e:  # noqa: BLE001
                            ok, why = False, f"{type(e).__name__}; {len(cur)} chars on disk"
                        window = "open" if op == "open_truncate" or not rec.calls or k < rec.calls[0]["op_begin"] else "rewrite"
                        if not ok and not (inprog is not None and inprog["file"] == fn):
                            self._v("restart_unloadable_after_crash", f"file=restart|kind={kind}|window=resumed:{window}|inside=resume",
                                    f"a process resumed from the restart file with the same path (append mode) and died at its file "
                                    f"operation {k} ({op}) before completing a restart write: {why}", f"resume op {k}")
        res.cover.add(f"resume|{sc['driver']}|{len(trace)}ops")

    # -- invariants --------------------------------------------------------------------
    def _v(self, invariant, context, detail, at, data=None):
        self.res.violations.append(Violation("C16", invariant, context, detail, at, data or {}))

    def _check_reference(self, sc, calls, w):
        res = self.res
        per_file: dict = {}
        drv = sc["driver"]
        for i, c in enumerate(calls):
            prev = per_file.get(c["file"])
            role = c["role"]
            at = f"call#{i} {c['name']} step={c['step']}"
            if c["pending"]:
                self._v("not_flushed_after_call", f"file={role}", f"{c['pending']} chars still buffered", at)
            d = c["durable"]
            ncalls = sum(1 for x in calls[: i + 1] if x["file"] == c["file"])
            if role == "log":
                lines = d.split("\n")
                if not d.endswith("\n"):
                    self._v("log_incomplete_line", "file=log", repr(d[-80:]), at)
                else:
                    lines = lines[:-1]
                    if len(lines) != ncalls + 1:
                        self._v("log_line_count", "file=log", f"{len(lines)} lines for {ncalls} calls + header:\n{d[-400:]}", at)
                    elif lines[0] != c["header"]:
                        self._v("log_header", "file=log", f"first line {lines[0]!r} != header {c['header']!r}", at)
                    elif lines.count(c["header"]) != 1:
                        self._v("log_header_repeated", "file=log", d[-400:], at)
                    else:
                        ncol = len(c["header"].split())
                        row = lines[-1].split()
                        if len(row) != ncol:
                            self._v("log_row_shape", "file=log", f"{row} vs header {c['header']}", at)
                        elif "Step" in c["header"].split():
                            col = c["header"].split().index("Step")
                            if int(row[col]) != c["step"]:
                                self._v("log_row_step", "file=log", f"row says {row[col]} at step {c['step']}", at)
                if prev is not None and not d.startswith(prev):
                    self._v("log_rewritten", "file=log", "earlier bytes changed", at)
            elif role == "traj":
                if prev is not None and not d.startswith(prev):
                    self._v("traj_rewritten", "file=traj", "earlier bytes changed", at)
                try:
                    frames = _parse_traj(d)
                except Exception as e:  # noqa: BLE001
                    self._v("traj_unparsable", "file=traj", f"{type(e).__name__}: {e}", at)
                    frames = None
                if frames is not None:
                    if len(frames) != ncalls:
                        self._v("traj_frame_count", "file=traj", f"{len(frames)} frames for {ncalls} calls", at)
                    elif len(frames[-1]) != c["natoms"] or (c["natoms"] and not np.allclose(frames[-1].positions, c["positions"], atol=1e-6, rtol=0)):
                        self._v("traj_last_frame_wrong", "file=traj", "last frame is not the current atoms", at)
            elif role == "restart":
                try:
                    doc = json.loads(d)
                except Exception as e:  # noqa: BLE001
                    self._v("restart_not_one_json", f"file=restart|driver={drv}", f"{type(e).__name__}: {e}; len={len(d)}", at)
                    doc = None
                if doc is not None and doc != c["state_json"]:
                    self._v("restart_stale", f"file=restart|driver={drv}", "document differs from the current state", at)
            per_file[c["file"]] = d
            res.cover.add(f"ref|{drv}|{role}|{self.sc['files'].get('logging_mode')}")

    def _judge_crash(self, sc, calls, trace, k, kind, frac, durable: dict, real: bool):
        res = self.res
        drv = sc["driver"]
        # what had completed strictly before op k
        done = [c for c in calls if c["op_end"] <= k]
        inprog = next((c for c in calls if c["op_begin"] <= k < c["op_end"]), None)
        prev_op = trace[k - 1][2] if k > 0 and trace[k - 1][4] == trace[k][4] and trace[k][4] else "-"
        next_op = trace[k][2]
        window = f"{prev_op}>{next_op}"
        role_k = ROLE_OF.get(trace[k][4], "outside")
        at = f"crash at op {k} ({kind}, frac={frac}) in {trace[k][4] or 'no observer call'}; window {window}"
        last = {}
        for c in done:
            last[c["file"]] = c
        for fname, c in last.items():
            role = c["role"]
            cur = durable.get(fname, "")
            if role in ("log", "traj"):
                if not cur.startswith(c["durable"]):
                    self._v("completed_output_lost_after_crash",
                            f"file={role}|kind={kind}|window={window}|inside={role_k}",
                            f"durable {len(cur)} chars no longer starts with the {len(c['durable'])} chars that were complete", at,
                            {"at": k, "kind": kind, "frac": frac})
            elif role == "restart":
                ok = False
                why = ""
                try:
                    from ase.io.jsonio import decode

                    decode(cur)
                    doc = json.loads(cur)
                    allowed = [c["state_json"]]
                    if inprog is not None and inprog["file"] == fname:
                        allowed.append(inprog["state_json"])
                    ok = doc in allowed
                    why = "loads, but to a state that was never saved"
                except Exception as e:  # noqa: BLE001
                    why = f"{type(e).__name__}: {str(e)[:100]}; {len(cur)} chars on disk"
                if not ok:
                    self._v("restart_unloadable_after_crash",
                            f"file=restart|kind={kind}|window={window}|inside={role_k}", why, at,
                            {"at": k, "kind": kind, "frac": frac})
        if done:
            res.cover.add(f"crash|{drv}|{role_k}|{window}|{kind}|{self.tagbits}")
        res.count("probe.crash_inside_call" if inprog else "probe.crash_between_calls")

    def nontrivial(self, packed):
        return packed["stats"].get("observer_calls", 0) > 0

    def shrink_candidates(self, sc, signature, violation):
        if "crash_only" in sc:
            return
        # fewer steps
        total = sum(s["n"] for s in sc["steps"])
        if total > 1:
            c = copy.deepcopy(sc)
            c["steps"] = [{"n": max(1, total // 2)}]
            yield c
            c = copy.deepcopy(sc)
            c["steps"] = [{"n": total - 1}]
            yield c
        roles = [r for r in ("logfile", "trajectory", "restart_file") if r in sc["files"]]
        if len(roles) > 1:
            for r in roles:
                c = copy.deepcopy(sc)
                del c["files"][r]
                yield c
        if len(sc["atoms"]["numbers"]) > 1 and sc["driver"] != "GrandCanonical":
            c = copy.deepcopy(sc)
            n = len(c["atoms"]["numbers"]) - 1
            c["atoms"]["numbers"] = c["atoms"]["numbers"][:n]
            c["atoms"]["positions"] = c["atoms"]["positions"][:n]
            for k2, v in c["atoms"]["arrays"].items():
                c["atoms"]["arrays"][k2] = v[:n]
            for m in c.get("moves", []):
                if "labels" in m["move"]:
                    m["move"]["labels"] = m["move"]["labels"][:n]
            c["atoms"]["constraints"] = []
            yield c
        if sc["files"].get("logging_interval", 1) != 1:
            c = copy.deepcopy(sc)
            c["files"]["logging_interval"] = 1
            yield c
        # last: the violating crash point alone (real re-execution with the fault armed)
        if violation.get("data", {}).get("kind"):
            c = copy.deepcopy(sc)
            c["crash_only"] = dict(violation["data"])
            yield c


CAMPAIGN = C16()
