"""C06 - same seed, same trajectory.

One scenario, several executions: A and B in this process with the process-global
generators (numpy legacy global, `random`) reseeded and consumed between all steps with
different junk, C in a fresh interpreter under another PYTHONHASHSEED, D with seed+1.
digest(A) == digest(B) == digest(C) != digest(D); and the global generators' states are
bit-identical before and after every stretch of driver code (nobody drew from them).
"""
from __future__ import annotations

import copy
import hashlib
import json
import os
import random
import subprocess
import sys
import tempfile

import numpy as np

from campaigns.history import HistoryCampaign, gen_history, shrink_mc
from simkit import gen
from simkit.core import VERIF_DIR, RunResult, Violation, classify_exception
from simkit.simfs import SimDisk
from simkit.world import scribble, FBMonitor, Monitor, make_world

SEEDS = [0, 0, 1, 2, 12345, 2**32 - 1, 2**32, 2**63, 2**64 - 1]


def _h(*items) -> str:
    m = hashlib.sha256()
    for it in items:
        if hasattr(it, "tobytes"):
            m.update(str(it.dtype).encode() + str(it.shape).encode() + it.tobytes())
        else:
            m.update(repr(it).encode())
    return m.hexdigest()[:12]


def _gstate():
    s = np.random.get_state()
    return (s[0], s[1].tobytes(), s[2], s[3], s[4]), random.getstate()


class GlobalGenMonitor(Monitor):
    """Injects junk into the global generators between stretches of driver code and checks
    that driver code never touches them.  Also records the per-event digest list."""

    prop = "C06"

    def __init__(self, junk: int):
        self.junk = random.Random(junk) if junk else None
        self.saved = None
        self.events = []
        self.touched = []

    def _compare(self, w, phase):
        if self.saved is None:
            return
        cur = _gstate()
        if cur[0] != self.saved[0]:
            self.touched.append(("numpy.random", phase))
        if cur[1] != self.saved[1]:
            self.touched.append(("random", phase))

    def _inject(self):
        if self.junk is not None:
            a, b, k = self.junk.randint(0, 2**32 - 1), self.junk.randint(0, 2**32 - 1), self.junk.randint(0, 7)
            np.random.seed(a)
            random.seed(b)
            for _ in range(k):
                np.random.rand()
                random.random()
        self.saved = _gstate()

    def on_build(self, w):
        self._inject()

    # Monte Carlo drivers
    def on_step_begin(self, w):
        self._compare(w, "observers")
        self._inject()

    def on_trial(self, w, name, verdict, pre, post):
        # did this trial move the configuration by more than rounding (a continuously distributed change)?
        moved = bool(post["n"] != pre["n"]
                     or np.max(np.abs(post["positions"] - pre["positions"]), initial=0.0) > 1e-9
                     or np.max(np.abs(post["cellarr"] - pre["cellarr"])) > 1e-9)
        self.events.append(("trial", name, repr(verdict), _h(post["positions"], post["cellarr"], w.atoms.numbers,
                                                                repr(post["last_e"])), int(post["n"]), moved))

    def on_step_end(self, w):
        self._compare(w, "step")
        self.events.append(("step", w.mc.step_count, _h(tuple((str(n), repr(v)) for n, v in w.mc.move_history))))
        self._inject()

    def on_segment_end(self, w):
        self._compare(w, "observers")
        self._inject()

    # force-bias drivers
    def before_step(self, w, pre):
        self._compare(w, "observers")
        self._inject()

    def on_fbstep(self, w, pre, post):
        self._compare(w, "step")
        self.events.append(("fbstep", w.mc.step_count, _h(post["positions"], np.asarray(w.mc.delta))))
        self._inject()

    def on_exception(self, w, info):
        self.events.append(("exception", info["type"], info["where"]))
        return True


def _rebuild_from_state(w, sc, disk, holder):
    """Replace the world's driver by one rebuilt with from_dict from a state dictionary that is shared (the same
    dict object) by all executions of the scenario."""
    from simkit import calcs

    mc0 = w.mc
    if "state" not in holder:
        holder["state"] = mc0.to_dict()
    kw = {}
    files = sc.get("files", {})
    for role in ("logfile", "trajectory"):
        if role in files:
            kw[role] = disk.open(files[role]["name"] + ".rebuilt", "a")
    if "logging_interval" in files:
        kw["logging_interval"] = files["logging_interval"]
    mc0.close()
    mc = type(mc0).from_dict(holder["state"], **kw)
    mc.atoms.calc = calcs.make_calc(sc["calc"])
    w.mc, w.atoms, w.calc = mc, mc.atoms, mc.atoms.calc


def run_digest(sc: dict, junk: int, holder: dict | None = None) -> dict:
    """Execute the scenario; -> {'events': [...], 'files': {...}, 'touched': [...], 'error': ...}"""
    import warnings

    warnings.simplefilter("ignore")
    disk = SimDisk()
    mon = GlobalGenMonitor(junk)
    opts = {"simgen": False, "tape_criteria": False, "probe_check_move": False, "probe_distribution": False}
    try:
        if holder is not None and sc.get("share_calculator") and holder.get("calc") is not None:
            opts["calc_object"] = holder["calc"]  # the calculator the previous simulation of this scenario used
        w = make_world(sc, [mon], opts, disk)
        if holder is not None and sc.get("share_calculator"):
            holder["calc"] = w.calc
        if holder is not None and sc.get("share_operations"):
            # the user built his displacement operations once (Box / Ball / Sphere hold a step size and nothing else)
            # and hands the same objects to the moves of every simulation he builds from this configuration
            mine = [m for _p, m in w.env.leaves if type(getattr(m, "operation", None)).__name__ in ("Box", "Ball", "Sphere")]
            earlier = holder.get("ops")
            if earlier is None:
                holder["ops"] = [m.operation for m in mine]
            elif len(earlier) == len(mine):
                for m, op in zip(mine, earlier):
                    if type(op) is type(m.operation) and op.to_dict() == m.operation.to_dict():
                        m.operation = op
                        w.result.count("fault.operation_object_shared_with_earlier_simulation")
        if holder is not None and sc.get("route") == "from_dict" and hasattr(w.mc, "from_dict"):
            _rebuild_from_state(w, sc, disk, holder)
        w.run()
    except Exception as e:  # noqa: BLE001
        info = classify_exception(e)
        return {"events": mon.events, "files": {}, "touched": mon.touched, "error": info}
    w.mc.close()
    files = {n: hashlib.sha256(f.durable.encode()).hexdigest()[:16] for n, f in sorted(disk.files.items())}
    final = _h(w.atoms.positions, np.asarray(w.atoms.cell.array), w.atoms.numbers, w.mc.step_count)
    try:
        nscribbled = scribble(w)
    except Exception:  # noqa: BLE001 - read-only or unusual objects: nothing to edit
        nscribbled = 0
    return {"events": [list(e) for e in mon.events], "files": files, "touched": [list(t) for t in mon.touched],
            "final": final, "harness_error": w.result.harness_error,
            "nevents": len(mon.events), "scribbled": nscribbled}


def first_difference(a: dict, b: dict) -> str | None:
    for i, (x, y) in enumerate(zip(a["events"], b["events"])):
        if list(x) != list(y):
            what = x[0]
            if what == "trial" and x[1] != y[1]:
                return f"event {i}: move selection ({x[1]} vs {y[1]})|schedule"
            if what == "trial" and x[2] != y[2]:
                return f"event {i}: verdict of {x[1]} ({x[2]} vs {y[2]})|verdict"
            return f"event {i}: {what} state|state"
    if len(a["events"]) != len(b["events"]):
        return f"event count {len(a['events'])} vs {len(b['events'])}|length"
    if a.get("final") != b.get("final"):
        return "final atoms|final"
    for n in sorted(set(a["files"]) | set(b["files"])):
        if a["files"].get(n) != b["files"].get(n):
            return f"file {n}|file:{n.split('.')[0]}"
    return None


class C06(HistoryCampaign):
    prop = "C06"
    run_timeout_s = 120
    flavor = {
        "drivers": ["Canonical", "HamiltonianCanonical", "Isobaric", "Isotension", "GrandCanonical", "GrandCanonical"],
        "calc_styles": ["caching", "stateless"],
        "scales": ["moderate"], "constraints": 0.2, "arrays": 0.3, "composites": 0.4, "extended": 0.1,
        "p_force": [0.0], "p_veto": [0.0], "preselect": 0.0, "steps_max": 8, "mask_prob": 0.4,
    }
    rule = ("one evaluation = one scenario executed four ways (two in-process runs with different global-generator junk "
            "between all steps, one run with seed+1, and - for a sample - one run in a fresh interpreter under another "
            "PYTHONHASHSEED); all seven drivers, generated move tables, seeds incl. 0, 1, 2^32-1, 2^32, 2^63, 2^64-1; "
            "distinct = (driver, sorted move categories, seed class, files attached) tuples; non-trivial = the run "
            "executed at least one step that draws random numbers")
    assumptions = ["digest = per-trial move name, verdict, positions/cell/numbers/energy bytes, per-step history, log and trajectory bytes",
                   "global generators examined: numpy's legacy global RandomState and Python's random module"]
    stub_components = ["analytic calculators", "SimFile for log/trajectory", "global-generator junk injector (harness)"]

    def budget(self, tier):
        return {"runs": 2500, "wall_s": 170} if tier == "quick" else {"runs": 300000, "wall_s": 1500}

    def generate(self, rnd, tier, index):
        r = rnd.random()
        if r < 0.25:
            cell = gen.gen_cell(rnd)
            drv = rnd.choice(["ForceBias", "AdaptiveForceBias"])
            n = rnd.randint(2, 5)
            sc = {"driver": drv, "atoms": gen.gen_atoms(rnd, n, cell, arrays=0.2, uid=False),
                  "calc": {"style": "caching", "pot": gen.gen_pot(rnd, cell)},
                  "params": {"delta": gen.logu(rnd, 0.01, 0.3), "min_delta": 0.01, "max_delta": 0.2,
                             "scheme": rnd.choice(["forces", "energy"]), "update_function": rnd.choice(["tanh", "exp"]),
                             "temperature": gen.gen_temperature(rnd)},
                  "steps": [{"n": rnd.randint(1, 8)}]}
        else:
            sc = gen_history(rnd, self.flavor)
            sc.pop("faults", None)
        sc["seed"] = rnd.choice(SEEDS)
        sc["seed_kind"] = rnd.choice(["int", "int", "int", "np.int64", "np.uint64", "np.uint32"])
        if sc["driver"] not in ("ForceBias", "AdaptiveForceBias") and rnd.random() < 0.25:
            sc["route"] = "from_dict"  # both simulations are rebuilt from one and the same state dictionary
        files = {"logging_interval": rnd.choice([1, 1, 2])}
        if rnd.random() < 0.8:
            files["logfile"] = {"name": "log.txt", "as": "object", "mode": "a"}
        if rnd.random() < 0.6:
            files["trajectory"] = {"name": "traj.xyz", "as": "object", "mode": "a"}
        sc["files"] = files
        sc["fresh"] = rnd.random() < (0.03 if tier == "quick" else 0.05)
        if len(sc.get("exchange", {}).get("arrays", {})) >= 2 and "trajectory" in files:
            # per-atom arrays created during the run and written to the trajectory: their order must be the same in
            # every process (seeded C06-5: set iteration over strings follows PYTHONHASHSEED)
            sc["fresh"] = rnd.random() < 0.5
        sc["hashseed"] = rnd.randint(1, 4000)
        if sc["driver"] not in ("ForceBias", "AdaptiveForceBias") and sc.get("route") != "from_dict" and rnd.random() < 0.1:
            # moves added without a name (whatever the driver calls them must not depend on the process)
            plain = [e for e in sc["moves"] if e.get("via") != "constructor" and e["move"]["type"] != "ref"
                     and not any(r.get("of") == e.get("name") for x in sc["moves"] for r in [x["move"]] if r.get("type") == "ref")]
            for e in plain[:2]:
                e["unnamed"] = True
        if sc["driver"] not in ("ForceBias", "AdaptiveForceBias") and sc.get("route") != "from_dict" and rnd.random() < 0.3:
            # one calculator object serves both simulations, one after the other (usual for expensive calculators):
            # the second starts with a calculator whose cache describes the end of the first
            sc["share_calculator"] = True
        if sc["driver"] not in ("ForceBias", "AdaptiveForceBias") and sc.get("route") != "from_dict" and rnd.random() < 0.25:
            sc["share_operations"] = True
        return sc

    def sample_view(self, sc):
        if sc["driver"] in ("ForceBias", "AdaptiveForceBias"):
            return {"driver": sc["driver"], "seed": sc["seed"], "steps": sc["steps"], "params": sc["params"], "files": sorted(sc["files"])}
        v = super().sample_view(sc)
        v["seed"] = sc["seed"]
        v["fresh_interpreter"] = sc.get("fresh")
        return v

    def execute(self, sc):
        res = RunResult()
        drv = sc["driver"]
        holder = {}
        a = run_digest(sc, junk=1, holder=holder)
        b = run_digest(sc, junk=2, holder=holder)
        res.count("fault.inplace_edits_of_finished_simulation", int(a.get("scribbled", 0)))
        for r in (a, b):
            if r.get("harness_error"):
                res.harness_error = r["harness_error"]
                return res.pack()
            if r.get("error") and r["error"]["harness"]:
                res.harness_error = r["error"]["text"]
                return res.pack()
        if a.get("error"):
            res.foreign.append({"type": a["error"]["type"], "where": a["error"]["where"], "owner": a["error"]["owner"], "phase": "run"})
            return res.pack()
        nsteps = sum(s["n"] for s in sc["steps"])
        res.count("steps", nsteps)
        res.count("trials", sum(1 for e in a["events"] if e[0] in ("trial", "fbstep")))
        res.count("evaluations", 3)
        res.count("fault.global_generator_jump", 2 * (len(a["events"]) + 1))
        seedclass = "zero" if sc["seed"] == 0 else ("small" if sc["seed"] < 2**31 else "huge")
        from simkit.world import spec_cat
        table = "+".join(sorted({spec_cat(e["move"], sc) for e in sc.get("moves", [])})) or "fbstep"
        res.cover.add(f"{drv}|{table}|{seedclass}|{'+'.join(sorted(k for k in sc['files'] if k != 'logging_interval'))}")
        for which, phase in {tuple(t) for t in a["touched"] + b["touched"]}:
            res.violations.append(Violation("C06", "global_generator_touched", f"which={which}|driver={drv}|phase={phase}",
                                            f"the state of {which} changed while driver code ran ({phase})"))
        d = first_difference(a, b)
        if d:
            text, cls = d.rsplit("|", 1)
            res.violations.append(Violation("C06", "same_seed_different_trajectory", f"driver={drv}|seed={seedclass}|first_diff={cls}",
                                            f"two runs with seed={sc['seed']} and different global-generator junk differ: {text}"))
            return res.pack()
        # different seeds must differ - judged on runs whose digest depends on drawn numbers at all
        # (the configuration changed at least twice - constraints or all-negative labels can freeze a run)
        # ... through continuously distributed numbers: deletions only pick one of a few labels, two seeds can
        # coincide on them by chance; count configuration changes that did not shrink the system and are larger than
        # rounding (a fully masked deformation is the identity: re-scaling the atoms only changes last bits)
        cont = 0
        prev = None
        for e in a["events"]:
            if e[0] == "trial":
                if prev is not None and e[3] != prev[3] and e[4] >= prev[4] and e[5]:
                    cont += 1
                prev = e
        random_dependent = cont >= 2 or len({e[2] for e in a["events"] if e[0] == "fbstep"}) >= 2
        if random_dependent:
            sc2 = copy.deepcopy(sc)
            sc2["seed"] = sc["seed"] + 1
            sc2["seed_kind"] = "int"
            c = run_digest(sc2, junk=1)
            res.count("probe.other_seed_compared")
            if not c.get("error") and first_difference(a, c) is None:
                res.violations.append(Violation("C06", "different_seed_same_trajectory", f"driver={drv}|seed={seedclass}",
                                                f"seed {sc['seed']} and {sc['seed'] + 1} give identical digests over {a['nevents']} events"))
        if sc.get("fresh"):
            f = self._fresh(sc)
            res.count("fault.fresh_interpreter_other_hashseed")
            res.count("evaluations")
            if f is None:
                res.harness_error = "fresh interpreter digest failed"
            else:
                d = first_difference(a, f)
                if d:
                    text, cls = d.rsplit("|", 1)
                    res.violations.append(Violation("C06", "same_seed_different_trajectory_across_processes",
                                                    f"driver={drv}|seed={seedclass}|first_diff={cls}",
                                                    f"fresh interpreter (PYTHONHASHSEED={sc['hashseed']}) differs: {text}"))
        return res.pack()

    def _fresh(self, sc):
        with tempfile.NamedTemporaryFile("w", suffix=".json", prefix="qjob_", delete=False) as f:
            json.dump({"scenario": sc, "junk": 3}, f)
            path = f.name
        try:
            env = dict(os.environ, PYTHONHASHSEED=str(sc["hashseed"]))
            p = subprocess.run([sys.executable, os.path.join(VERIF_DIR, "simkit", "freshproc.py"), "digest", path],
                               capture_output=True, text=True, timeout=120, env=env)
        finally:
            os.unlink(path)
        if p.returncode != 0:
            sys.stderr.write(p.stderr[-2000:])
            return None
        return json.loads(p.stdout.strip().splitlines()[-1])

    def shrink_candidates(self, sc, signature, violation):
        if sc["driver"] in ("ForceBias", "AdaptiveForceBias"):
            n = sc["steps"][0]["n"]
            if n > 1:
                c = copy.deepcopy(sc)
                c["steps"] = [{"n": 1}]
                yield c
            return
        for key in ("trajectory", "logfile"):
            if key in sc["files"] and f"file:{key[:4]}" not in signature:
                c = copy.deepcopy(sc)
                del c["files"][key]
                yield c
        if sc.get("fresh") and "across_processes" not in signature:
            c = copy.deepcopy(sc)
            c["fresh"] = False
            yield c
        yield from shrink_mc(sc, signature, violation)

    def nontrivial(self, packed):
        return packed["stats"].get("trials", 0) > 0


CAMPAIGN = C06()
