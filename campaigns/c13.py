"""C13 - force-bias steps are bounded and follow the published force-biased density.

The real ForceBias.step runs against a calculator stub returning prescribed forces
(constant in time per coordinate, so the zeta samples of one gamma accumulate).  The
generator seam counts draws per step (termination), the bound and the "exactly once"
clauses are invariants of every step, the density clause is a KS test of zeta against the
closed-form Bal-Neyts CDF with a confirmation stage (DESIGN.md 3.2).
"""
from __future__ import annotations

import copy
import math
import random

import numpy as np
from ase.units import kB

from simkit import gen, rngseam
from simkit.core import RunResult, Violation, classify_exception, derive
from simkit.engine import Campaign
from simkit.world import FBMonitor, make_world

GMAX = 709.782712


def bn_cdf(z: np.ndarray, g: float) -> np.ndarray:
    """CDF of the Bal-Neyts density for gamma g on [-1, 1], evaluated in scaled form."""
    z = np.asarray(z, dtype=float)
    if g < 0:  # symmetry: zeta -> -zeta
        return 1.0 - bn_cdf(-z, -g)
    if g < 1e-4:
        # p(z) = (1 - |z|)(1 + g z) + O(g^2): the small-force limit is the triangular law, not a uniform one
        tri = np.where(z < 0, 0.5 * (1 + z) ** 2, 1 - 0.5 * (1 - z) ** 2)
        corr = np.where(z < 0, z**2 / 2 + z**3 / 3, z**2 / 2 - z**3 / 3) - 1.0 / 6.0
        return np.clip(tri + g * corr, 0.0, 1.0)
    # all terms divided by e^{g}:  D/e^g = 1 - e^{-2g}
    D = -math.expm1(-2 * g)
    em2g = math.exp(-2 * g)
    out = np.empty_like(z)
    neg = z < 0
    zn = z[neg]
    # F(z<0) = [ (e^{g(2z+1)} - e^{-g})/(2g) - e^{-g}(z+1) ] / D      (/e^g)
    out[neg] = ((np.exp(2 * g * zn) - em2g) / (2 * g) - em2g * (zn + 1)) / D
    F0 = ((1.0 - em2g) / (2 * g) - em2g) / D
    zp = z[~neg]
    # F(z>=0) = F0 + [ e^{g} z - (e^{g(2z-1)} - e^{-g})/(2g) ] / D      (/e^g)
    out[~neg] = F0 + (zp - (np.exp(2 * g * (zp - 1)) - em2g) / (2 * g)) / D
    return np.clip(out, 0.0, 1.0)


def p_opposed(g: np.ndarray) -> np.ndarray:
    """Probability that zeta points against the force, F_{|g|}(0), vectorised."""
    a = np.abs(np.asarray(g, dtype=float))
    out = np.full(a.shape, 0.5)
    m = a > 1e-6
    am = a[m]
    em2 = np.exp(-2 * am)
    out[m] = (-np.expm1(-2 * am) / (2 * am) - em2) / (-np.expm1(-2 * am))
    return out


def ks_distance(sample: np.ndarray, g: float) -> float:
    s = np.sort(sample)
    n = len(s)
    F = bn_cdf(s, g)
    return float(max(np.max(np.arange(1, n + 1) / n - F), np.max(F - np.arange(0, n) / n)))


class C13Monitor(FBMonitor):
    prop = "C13"
    MAX_ROUNDS = 200

    def on_build(self, w):
        self.zetas = []
        self.pits = []
        self.has_constraints = bool(w.sc["atoms"].get("constraints"))
        self.gamma_ref = None
        shape = (len(w.atoms), 3)
        self.opp = np.zeros(shape)
        self.opp_exp = np.zeros(shape)
        self.opp_var = np.zeros(shape)

    def before_step(self, w, pre):
        if w.gen is not None:
            # one zeta + one uniform draw per round
            w.gen.budget = w.gen.ndraws + 2 * (self.MAX_ROUNDS + 1)

    def on_fbstep(self, w, pre, post):
        mc = w.mc
        ctx = f"driver={w.sc['driver']}"
        p = w.sc["params"]
        if w.sc["driver"] == "ForceBias":
            delta = np.asarray(p["delta"], dtype=float)  # as configured
        else:
            delta = np.asarray(mc.delta, dtype=float)  # adaptive: must stay within the configured range
            if np.any(delta < p["min_delta"] * (1 - 1e-12)) or np.any(delta > p["max_delta"] * (1 + 1e-12)):
                self.violate(w, "adaptive_delta_out_of_range", ctx, f"delta in [{np.min(delta)}, {np.max(delta)}] vs [{p['min_delta']}, {p['max_delta']}]")
        if p.get("update_masses") is not None:
            masses = np.array(p["update_masses"], dtype=float)
            if masses.ndim == 1:
                masses = np.broadcast_to(masses[:, None], (len(w.atoms), 3))
        else:
            masses = np.broadcast_to(w.atoms.get_masses()[:, None], (len(w.atoms), 3))
        power = p.get("masses_scaling_power")
        power = 0.25 if power is None else np.asarray(power, dtype=float)
        scale = np.power(np.min(masses) / masses, power)
        bound = np.broadcast_to(delta * scale, post["positions"].shape)
        dr = post["positions"] - pre["positions"]
        T = float(w.sc["params"]["temperature"])  # as configured
        forces = post["forces"]
        gam = np.clip(forces * delta / (2 * T * kB), -GMAX, GMAX)
        rounds = (post["ndraws"] - pre["ndraws"]) // 2
        w.result.count("probe.redraw_rounds", max(0, rounds - 1))
        if np.any(np.abs(gam) >= GMAX):
            w.result.count("probe.gamma_clipped")
        if np.any(gam == 0):
            w.result.count("probe.gamma_zero")
        if not self.has_constraints:
            if np.any(np.abs(dr) > bound * (1 + 1e-12) + 1e-300):
                i = int(np.argmax(np.abs(dr) - bound))
                self.violate(w, "displacement_exceeds_bound", ctx,
                             f"|dr|={np.abs(dr).ravel()[i]:.6e} > delta*(m_min/m)^p={bound.ravel()[i]:.6e}")
            implied = np.asarray(mc.zeta) * delta * scale
            if not np.allclose(dr, implied, rtol=1e-9, atol=1e-12 * float(np.max(np.abs(pre['positions']), initial=1.0))):
                self.violate(w, "configuration_not_advanced_exactly_once", ctx,
                             f"position change differs from zeta*delta*scale by up to {np.max(np.abs(dr - implied)):.3e}")
        if np.any(np.abs(np.asarray(mc.zeta)) > 1.0):
            self.violate(w, "zeta_out_of_range", ctx, f"max |zeta| = {np.max(np.abs(mc.zeta))}")
        if post["nevals"] - pre["nevals"] > 2:
            self.violate(w, "too_many_evaluations_per_step", ctx, f"{post['nevals'] - pre['nevals']} calculator evaluations in one step")
        if not np.all(np.isfinite(post["positions"])):
            self.violate(w, "non_finite_positions", ctx, "positions became non-finite")
        # "displacement along the force is favoured, increasingly with |gamma|": count draws against the force
        if not self.has_constraints:
            z = np.asarray(mc.zeta)
            strong = np.abs(gam) >= 1.0
            p = p_opposed(gam)
            self.opp += strong & (z * gam < 0)
            self.opp_exp += np.where(strong, p, 0.0)
            self.opp_var += np.where(strong, p * (1 - p), 0.0)
        if w.sc.get("collect"):
            # probability integral transform with THIS step's gamma: uniform on [0, 1] whatever gamma does between steps
            z = np.asarray(mc.zeta, dtype=float)
            u = np.full(z.shape, np.nan)
            for idx in np.ndindex(z.shape):
                g = float(gam[idx])
                if abs(g) >= MIN_GAMMA:
                    u[idx] = float(bn_cdf(np.array([z[idx]]), g)[0])
            self.pits.append(u)
            if self.gamma_ref is None:
                self.gamma_ref = np.array(gam, copy=True)
            elif not np.allclose(gam, self.gamma_ref, rtol=1e-9, atol=0):
                # the density test pools the steps of one run: only valid while gamma stays what it was
                self.nonstationary = True
                w.result.count("probe.density_run_gamma_changed")
            self.zetas.append(np.array(mc.zeta, copy=True))

    def on_exception(self, w, info):
        if info["owner"] == "C13":
            self.violate(w, "exception", f"type={info['type']}|where={info['where']}|driver={w.sc['driver']}", info["text"])
            return True
        return False


def run_fb(sc):
    import warnings

    warnings.simplefilter("ignore")
    mon = C13Monitor()
    w = make_world(sc, [mon], {"simgen": True})
    try:
        w.run()
    except rngseam.DrawBudgetExceeded as e:
        mon.violate(w, "step_does_not_terminate", f"driver={sc['driver']}",
                    f"more than {C13Monitor.MAX_ROUNDS} redraw rounds in one step ({e}); gamma range "
                    f"[{np.min(w.mc.gamma):.3g}, {np.max(w.mc.gamma):.3g}]")
    w.mc.close()
    return w, mon


def opposed_flags(mons, sigmas=6.0, slack=3.0):
    """Coordinates whose number of draws against the force exceeds what the density allows.
    -> list of (idx, observed, expected, sd)"""
    opp = sum(m.opp for m in mons)
    exp = sum(m.opp_exp for m in mons)
    var = sum(m.opp_var for m in mons)
    out = []
    for idx in np.ndindex(opp.shape):
        if exp[idx] > 0 or opp[idx] > 0:
            sd = math.sqrt(var[idx])
            if opp[idx] - exp[idx] > sigmas * sd + slack:
                out.append((idx, float(opp[idx]), float(exp[idx]), sd))
    return out


MIN_GAMMA = 0.99e-11


def pit_flags(mons):
    """KS distance from the uniform law of the per-step transformed draws, per coordinate, pooled over the monitors
    -> list of (D*sqrt(n), D, n, idx)"""
    mons = [m for m in mons if m.pits]
    if not mons:
        return []
    U = np.concatenate([np.stack(m.pits) for m in mons])
    out = []
    for idx in np.ndindex(U.shape[1:]):
        u = U[(slice(None),) + idx]
        u = np.sort(u[~np.isnan(u)])
        n = len(u)
        if n < 100:
            continue
        D = float(max(np.max(np.arange(1, n + 1) / n - u), np.max(u - np.arange(0, n) / n)))
        out.append((D * math.sqrt(n), D, n, idx))
    return out


def density_flags(mon, min_gamma=MIN_GAMMA):
    """KS statistic per coordinate -> list of (D*sqrt(n), D, n, gamma, mean, idx)"""
    if not mon.zetas or mon.gamma_ref is None or getattr(mon, "nonstationary", False):
        return []
    Z = np.stack(mon.zetas)  # (S, n, 3)
    S = Z.shape[0]
    out = []
    G = mon.gamma_ref
    for idx in np.ndindex(G.shape):
        g = float(G[idx])
        if abs(g) < min_gamma:
            continue
        z = Z[(slice(None),) + idx]
        D = ks_distance(z, g)
        out.append((D * math.sqrt(S), D, S, g, float(np.mean(z)), idx))
    return out


class C13(Campaign):
    prop = "C13"
    level = "exploration"
    run_timeout_s = 200
    rule = ("one evaluation = one generated force-bias deployment (prescribed forces per coordinate spanning 0, +-1e-300, "
            "moderate, +-1e300 and mixed signs; delta scalar or per coordinate; T from 1e-2 to 1e5 K; masses and mass "
            "powers) stepped 1-2000 times; every step is checked for bound, zeta range, single advance, evaluation count "
            "and termination (draw budget); density runs collect zeta per coordinate and compare it with the Bal-Neyts "
            "CDF (KS with confirmation); distinct = (driver, delta kind, gamma classes present, mass-power kind, density "
            "run?) tuples; non-trivial = at least one step executed")
    assumptions = ["density clause judged for coordinates with |gamma| >= 1e-11 (quansino's own rounding noise there is ~1e-5 relative); at zero force any symmetric bounded law is admitted",
                   "KS flags become violations only after the confirmation stage (fresh seeds, 4x length, D > 2x the alpha=1e-9 critical value)",
                   "termination = at most 200 redraw rounds per step (the expected number is 2)"]
    real_components = ["quansino ForceBias / AdaptiveForceBias step, numpy PCG64 stream of the driver"]
    stub_components = ["calculator returning prescribed forces (constant per coordinate)", "SimGen draw counter around the driver's own PCG64"]

    def budget(self, tier):
        return {"runs": 1200, "wall_s": 170} if tier == "quick" else {"runs": 100000, "wall_s": 1500}

    def generate(self, rnd, tier, index):
        cell = gen.gen_cell(rnd)
        n = rnd.randint(1, 6)
        atoms = gen.gen_atoms(rnd, n, cell, arrays=0.0, uid=False)
        if rnd.random() < 0.3:
            atoms["arrays"]["masses"] = [gen.logu(rnd, 0.5, 300.0) for _ in range(n)]
        T = gen.logu(rnd, 1e-2, 1e5)
        per_coord = rnd.random() < 0.3
        delta = [[gen.logu(rnd, 1e-3, 0.5) for _ in range(3)] for _ in range(n)] if per_coord else gen.logu(rnd, 1e-3, 0.5)
        density = rnd.random() < 0.35
        forces = []
        for i in range(n):
            row = []
            for j in range(3):
                d = delta[i][j] if per_coord else delta
                if density:
                    r = rnd.random()
                    # small forces well above rounding level: the density tends to the triangular law 1 - |zeta| (seeded C13-4)
                    g = rnd.choice([-1, 1]) * (gen.logu(rnd, 0.05, 30.0) if r < 0.5 else gen.logu(rnd, 30.0, 900.0) if r < 0.75
                                               else gen.logu(rnd, 1e-11, 0.05))
                    row.append(g * 2 * T * kB / d)
                else:
                    kind = rnd.choice(["zero", "tiny", "moderate", "moderate", "huge", "clip"])
                    s = rnd.choice([-1, 1])
                    if kind == "zero":
                        row.append(0.0)
                    elif kind == "tiny":
                        row.append(s * rnd.choice([1e-300, 1e-200, 1e-30]))
                    elif kind == "moderate":
                        row.append(s * gen.logu(rnd, 1e-3, 50.0) * 2 * T * kB / d)
                    elif kind == "huge":
                        row.append(s * rnd.choice([1e300, 1e200, 1e50]))
                    else:
                        row.append(s * rnd.uniform(650, 760) * 2 * T * kB / d)
            forces.append(row)
        sc = {"driver": "ForceBias", "seed": rnd.randint(1, 2**31 - 1), "atoms": atoms,
              "calc": {"style": "prescribed", "pot": {"k": 0.0}, "forces": forces},
              "params": {"delta": delta, "temperature": T}, "collect": density,
              "steps": [{"n": 1500 if density else rnd.choice([1, 3, 10, 40])}]}
        r = rnd.random()
        if r < 0.3:
            sc["params"]["masses_scaling_power"] = gen.rfloat(rnd, 0.0, 1.0, 3)
        elif r < 0.4:
            sc["params"]["masses_scaling_power"] = [[gen.rfloat(rnd, 0.0, 1.0, 3) for _ in range(3)] for _ in range(n)]
        if rnd.random() < 0.25:
            # masses handed to the driver through update_masses (per atom or per coordinate): they, not the atoms'
            # tabulated masses, define the scaling (m_min/m)^p
            if rnd.random() < 0.5:
                sc["params"]["update_masses"] = [gen.logu(rnd, 0.5, 300.0) for _ in range(n)]
            else:
                sc["params"]["update_masses"] = [[gen.logu(rnd, 0.5, 300.0) for _ in range(3)] for _ in range(n)]
        if rnd.random() < 0.15:
            # (density runs too: with a constant committee the adapted delta is constant, and the density must be the one
            # for the temperature the user configured - seeded C13-5)
            sc["driver"] = "AdaptiveForceBias"
            sc["params"].update({"min_delta": gen.logu(rnd, 1e-3, 0.05), "max_delta": gen.logu(rnd, 0.06, 0.5),
                                 "scheme": rnd.choice(["forces", "energy"]), "update_function": rnd.choice(["tanh", "exp"])})
            if rnd.random() < 0.6:
                k = rnd.randint(2, 4)

                def committee(spread):
                    return {"forces_comm": [[[gen.rfloat(rnd, -spread, spread, 3) for _ in range(3)] for _ in range(n)] for _ in range(k)],
                            "energies": [gen.rfloat(rnd, -spread / 2, spread / 2, 4) for _ in range(k)]}
                sc["calc"]["committee"] = committee(2.0)
                if rnd.random() < 0.5:
                    # the committee's spread (hence the adapted delta) changes from step to step
                    sc["calc"]["committee"] = {"sequence": [committee(s) for s in rnd.sample([0.05, 0.3, 2.0, 8.0], rnd.randint(2, 3))]}
        return sc

    def sample_view(self, sc):
        f = np.array(sc["calc"]["forces"])
        return {"driver": sc["driver"], "natoms": len(sc["atoms"]["numbers"]), "T": sc["params"]["temperature"],
                "delta": "per-coordinate" if isinstance(sc["params"]["delta"], list) else sc["params"]["delta"],
                "force_range": [float(np.min(np.abs(f))), float(np.max(np.abs(f)))], "steps": sc["steps"], "density_run": sc.get("collect")}

    def execute(self, sc):
        res = RunResult()
        try:
            w, mon = run_fb(sc)
        except Exception as e:  # noqa: BLE001
            info = classify_exception(e)
            res.harness_error = info["text"]
            return res.pack()
        res.violations.extend(w.result.violations)
        res.stats.update(w.result.stats)
        res.harness_error = w.result.harness_error
        res.foreign = w.result.foreign
        res.count("evaluations")
        f = np.array(sc["calc"]["forces"], dtype=float)
        d = np.asarray(sc["params"]["delta"], dtype=float)
        g = np.abs(f * d / (2 * sc["params"]["temperature"] * kB))
        classes = "".join(c for c, m in (("0", g == 0), ("t", (g > 0) & (g < 1e-6)), ("m", (g >= 1e-6) & (g < 700)), ("C", g >= 700)) if np.any(m))
        p = sc["params"].get("masses_scaling_power")
        res.cover.add(f"{sc['driver']}|{'percoord' if d.ndim else 'scalar'}|{classes}|"
                      f"{'default' if p is None else 'array' if isinstance(p, list) else 'float'}|{int(bool(sc.get('collect')))}")
        if not res.violations and not res.harness_error and sc["driver"] == "ForceBias":
            fl = opposed_flags([mon])
            res.count("probe.opposed_draw_tests")
            if fl:
                res.count("probe.stage1_flag_opposed")
                mons = []
                for j in range(4):
                    c = copy.deepcopy(sc)
                    c["seed"] = derive(sc["seed"], "confirm-opp", j) % (2**31 - 1) + 1
                    c["steps"] = [{"n": max(40, 4 * sum(s["n"] for s in sc["steps"]))}]
                    c["collect"] = False
                    try:
                        mons.append(run_fb(c)[1])
                    except Exception:  # noqa: BLE001
                        mons = []
                        break
                nst = 4 * max(40, 4 * sum(s["n"] for s in sc["steps"]))
                conf = [x for x in opposed_flags(mons, 8.0, 5.0) if (x[1] - x[2]) / nst > 0.02] if mons else []
                if conf:
                    idx, o, e, sd = conf[0]
                    g0 = float(np.asarray(mons[0].opp_exp)[idx])
                    res.violations.append(Violation(
                        "C13", "displacement_against_force_too_frequent", f"driver={sc['driver']}",
                        f"coordinate {idx}: {int(o)} of {nst} draws point against the force, the Bal-Neyts density allows "
                        f"{e:.2f} +- {sd:.2f} (confirmed over 4 fresh seeds); stage 1 flagged {fl[0]}"))
        if sc.get("collect") and not res.violations and not res.harness_error:
            flags = [x for x in density_flags(mon) if x[0] > 2.2]  # ~ alpha 1e-4 per coordinate
            res.count("probe.density_coordinates_tested", len(density_flags(mon)))
            for stat, D, S, gam, mean, idx in flags:
                res.count("probe.stage1_flag_density")
                conf = self._confirm(sc, idx)
                if conf:
                    res.violations.append(Violation("C13", "zeta_density_differs_from_bal_neyts", f"driver={sc['driver']}",
                                                    conf + f" | stage 1: coordinate {idx}, gamma={gam:.4g}, KS D={D:.4f} over {S} steps, mean zeta {mean:+.4f}"))
                    break
            # the same through the per-step transform (also valid when gamma changes from step to step)
            if not res.violations:
                for stat, D, n, idx in [x for x in pit_flags([mon]) if x[0] > 2.2]:
                    res.count("probe.stage1_flag_density_pit")
                    conf = self._confirm_pit(sc, idx)
                    if conf:
                        res.violations.append(Violation("C13", "zeta_density_differs_from_bal_neyts", f"driver={sc['driver']}",
                                                        conf + f" | stage 1: coordinate {idx}, KS D={D:.4f} of the transformed draws over {n} steps"))
                        break
            # the sign of the mean: displacement along the force is favoured
            for stat, D, S, gam, mean, idx in density_flags(mon):
                if abs(gam) > 0.5 and mean * gam <= 0:
                    conf = self._confirm(sc, idx)
                    if conf:
                        res.violations.append(Violation("C13", "displacement_not_along_force", f"driver={sc['driver']}",
                                                        f"coordinate {idx}: gamma={gam:.3g} but mean zeta {mean:+.4f} over {S} steps | " + conf))
                        break
        return res.pack()

    def _confirm(self, sc, idx):
        Ds = []
        zs = []
        gam = None
        for j in range(4):
            c = copy.deepcopy(sc)
            c["seed"] = derive(sc["seed"], "confirm", j) % (2**31 - 1) + 1
            c["steps"] = [{"n": 4 * sum(s["n"] for s in sc["steps"])}]
            try:
                w, mon = run_fb(c)
            except Exception:  # noqa: BLE001
                return None
            Z = np.stack(mon.zetas)
            zs.append(Z[(slice(None),) + tuple(idx)])
            gam = float(mon.gamma_ref[tuple(idx)])
        z = np.concatenate(zs)
        D = ks_distance(z, gam)
        n = len(z)
        crit = math.sqrt(-math.log(1e-9 / 2) / 2) / math.sqrt(n)
        signs = {np.sign(np.mean(x) - self._bn_mean(gam)) for x in zs}
        if D > 2 * crit and D > 0.02:
            return (f"confirmed over 4 fresh seeds ({n} samples): KS D={D:.4f} > 2 x {crit:.4f}; mean zeta {np.mean(z):+.4f} "
                    f"vs Bal-Neyts mean {self._bn_mean(gam):+.4f}")
        return None

    def _confirm_pit(self, sc, idx):
        mons = []
        for j in range(4):
            c = copy.deepcopy(sc)
            c["seed"] = derive(sc["seed"], "confirm_pit", j) % (2**31 - 1) + 1
            c["steps"] = [{"n": 4 * sum(s["n"] for s in sc["steps"])}]
            try:
                w, mon = run_fb(c)
            except Exception:  # noqa: BLE001
                return None
            mons.append(mon)
        for stat, D, n, i in pit_flags(mons):
            if tuple(i) == tuple(idx):
                crit = math.sqrt(-math.log(1e-9 / 2) / 2) / math.sqrt(n)
                if D > 2 * crit and D > 0.02:
                    return f"confirmed over 4 fresh seeds ({n} draws, each transformed with its own step's gamma): KS D={D:.4f} > 2 x {crit:.4f}"
        return None

    @staticmethod
    def _bn_mean(g):
        zz = np.linspace(-1, 1, 20001)
        F = bn_cdf(zz, g)
        return float(1.0 - np.trapezoid(F, zz)) if hasattr(np, "trapezoid") else float(1.0 - np.trapz(F, zz))

    def shrink_candidates(self, sc, signature, violation):
        if "density" in signature or "along_force" in signature:
            return
        n = sc["steps"][0]["n"]
        if n > 1:
            for k in (1, n // 2):
                c = copy.deepcopy(sc)
                c["steps"] = [{"n": max(1, k)}]
                yield c
        na = len(sc["atoms"]["numbers"])
        if na > 1:
            c = copy.deepcopy(sc)
            a = c["atoms"]
            a["numbers"] = a["numbers"][:-1]
            a["positions"] = a["positions"][:-1]
            for k, v in a["arrays"].items():
                a["arrays"][k] = v[:-1]
            c["calc"]["forces"] = c["calc"]["forces"][:-1]
            if isinstance(c["params"]["delta"], list):
                c["params"]["delta"] = c["params"]["delta"][:-1]
            if isinstance(c["params"].get("masses_scaling_power"), list):
                c["params"]["masses_scaling_power"] = c["params"]["masses_scaling_power"][:-1]
            if c["calc"].get("committee"):
                com = c["calc"]["committee"]
                for d in (com["sequence"] if "sequence" in com else [com]):
                    d["forces_comm"] = [m[:-1] for m in d["forces_comm"]]
            if c["params"].get("update_masses") is not None:
                c["params"]["update_masses"] = c["params"]["update_masses"][:-1]
            yield c

    def nontrivial(self, packed):
        return packed["stats"].get("steps", 0) > 0


CAMPAIGN = C13()
