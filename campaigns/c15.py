"""C15 - observers fire on schedule and splitting a run does not change it.

The fault here is F16 (run splitting): n steps as any composition of run / srun / irun
calls, zero-length calls included, with recording observers of positive and negative
intervals plus the real Logger / TrajectoryObserver / RestartObserver on simulated
files.  Oracles: the reference call schedule; a single-call twin run(n) with the same
seed (bytes, trajectory, counter, calls); the step count performed per call.
"""
from __future__ import annotations

import copy
import hashlib
import random

import numpy as np

from campaigns.history import HistoryCampaign, gen_history, shrink_mc
from simkit import gen
from simkit.core import RunResult, Violation, classify_exception
from simkit.simfs import SimDisk
from simkit.world import make_world

INTERVALS = [1, 1, 2, 3, 5, -1, -2, -3, -7]


def count_steps(mc) -> dict:
    """Harness-owned step counter: wraps the driver's step() so that the number of steps actually *performed* (for Monte
    Carlo drivers: step generators run to exhaustion) is known without reading the simulation's own step_count."""
    import inspect

    perf = {"done": 0, "start": int(mc.step_count), "counter_mismatch": []}
    orig = mc.step
    if inspect.isgeneratorfunction(type(mc).step):
        def counted():
            yield from orig()
            perf["done"] += 1
    else:
        def counted():
            r = orig()
            perf["done"] += 1
            return r
    mc.step = counted
    return perf


def make_recorder(mc, interval, sink, perf):
    from quansino.io.core import Observer

    class Recorder(Observer):
        __slots__ = ("sink", "mc")

        def __init__(self, mc, interval, sink):
            super().__init__(interval)
            self.mc = mc
            self.sink = sink

        def __call__(self):
            done = perf["start"] + perf["done"]
            self.sink.append(done)
            if int(self.mc.step_count) != done and len(perf["counter_mismatch"]) < 5:
                perf["counter_mismatch"].append((int(self.mc.step_count), done))

        def attach_simulation(self, *a, **k): ...

        def close(self): ...

    return Recorder(mc, interval, sink)


def drive(mc, entry: str, n: int):
    is_mc = hasattr(mc, "moves")
    if entry == "run":
        mc.run(n)
    elif entry == "srun" and is_mc:
        for _ in mc.srun(n):
            pass
    else:  # irun, fully iterated
        for step in mc.irun(n):
            if is_mc:
                for _ in step:
                    pass


def execute_split(sc: dict, segments: list) -> dict:
    import warnings

    warnings.simplefilter("ignore")
    disk = SimDisk()
    opts = {"simgen": False, "tape_criteria": False, "probe_check_move": False, "probe_distribution": False}
    w = make_world(sc, (), opts, disk)
    mc = w.mc
    sinks = {}
    perf = count_steps(mc)
    for i, iv in enumerate(sc["recorders"]):
        sinks[i] = []
        mc.file_manager.attach_observer(f"rec{i}", make_recorder(mc, iv, sinks[i], perf))
    counts = []
    if sc.get("precreate") and len(segments) > 1 and all(s["entry"] in ("irun", "srun") for s in segments):
        # all pieces are requested first and only then iterated one after the other
        is_mc = hasattr(mc, "moves")
        gens = [(mc.srun(s["n"]) if (s["entry"] == "srun" and is_mc) else mc.irun(s["n"])) for s in segments]
        for seg, g in zip(segments, gens):
            before = perf["done"]
            for step in g:
                if is_mc and seg["entry"] != "srun":
                    for _ in step:
                        pass
            counts.append(perf["done"] - before)
        segments = []
    for iseg, seg in enumerate(segments):
        before = perf["done"]
        drive(mc, seg["entry"], seg["n"])
        counts.append(perf["done"] - before)
        if iseg == 0 and sc.get("late_logger"):
            # after the first call (possibly a zero-length one) the user gives the simulation a log file; whatever
            # that does to the new logger, nobody else's schedule may change
            mc.default_logger = disk.open("late_log", "a")
    if int(mc.step_count) != perf["start"] + perf["done"]:
        perf["counter_mismatch"].append((int(mc.step_count), perf["start"] + perf["done"]))
    out = {"calls": {i: list(s) for i, s in sinks.items()}, "counts": counts, "step_count": int(mc.step_count),
           "counter_mismatch": perf["counter_mismatch"],
           "positions": w.atoms.positions.tobytes().hex(), "cell": np.asarray(w.atoms.cell.array).tobytes().hex(),
           "numbers": w.atoms.numbers.tolist()}
    if hasattr(mc, "default_logger") and mc.default_logger is not None:
        out["header"] = mc.default_logger.create_header()
    mc.close()
    out["files"] = {n: f.durable for n, f in disk.files.items() if n != "late_log"}
    return out


def expected_calls(interval: int, n: int) -> list:
    if interval > 0:
        return [s for s in range(0, n + 1) if s % interval == 0]
    return [-interval] if -interval <= n and -interval > 0 else []


class C15(HistoryCampaign):
    prop = "C15"
    run_timeout_s = 120
    flavor = {
        "drivers": ["Canonical", "HamiltonianCanonical", "Isobaric", "GrandCanonical"],
        "calc_styles": ["caching", "stateless"],
        # (ASE's extxyz writer cannot write atoms carrying FixCom: no constraints with trajectories here)
        "scales": ["moderate"], "constraints": 0.0, "arrays": 0.2, "composites": 0.2, "extended": 0.0,
        "p_force": [0.0], "p_veto": [0.0], "preselect": 0.0, "steps_max": 12,
    }
    rule = ("one evaluation = one deployment executed twice: split into a generated composition of run/srun/irun calls "
            "(zero-length calls included) and as a single run(n) with the same seed; recording observers with intervals "
            "from {1,2,3,5,-1,-2,-3,-7} plus real logger/trajectory/restart observers on simulated files; distinct = "
            "(driver, split shape class, entry points used, observer interval signs, files) tuples; non-trivial = the "
            "split has at least two calls or a zero-length call")
    assumptions = ["irun 'fully iterated' means the step generators it yields are consumed as well (Monte Carlo drivers)"]
    stub_components = ["analytic calculators", "SimFile for log/trajectory/restart", "recording Observer subclasses (user-side)"]

    def budget(self, tier):
        return {"runs": 2500, "wall_s": 170} if tier == "quick" else {"runs": 300000, "wall_s": 1500}

    def generate(self, rnd, tier, index):
        if rnd.random() < 0.25:
            cell = gen.gen_cell(rnd)
            sc = {"driver": rnd.choice(["ForceBias", "AdaptiveForceBias"]), "seed": rnd.randint(1, 2**31 - 1),
                  "atoms": gen.gen_atoms(rnd, rnd.randint(2, 5), cell, arrays=0.2, uid=False),
                  "calc": {"style": "caching", "pot": gen.gen_pot(rnd, cell)},
                  "params": {"delta": gen.logu(rnd, 0.01, 0.3), "min_delta": 0.01, "max_delta": 0.2,
                             "temperature": gen.gen_temperature(rnd)}}
            n = rnd.randint(1, 12)
        else:
            sc = gen_history(rnd, self.flavor)
            sc.pop("faults", None)
            n = sum(s["n"] for s in sc["steps"])
        sc["steps"] = [{"n": n}]
        # F16: composition of n with zero-length parts
        parts = []
        left = n
        while left > 0:
            k = rnd.randint(1, left) if rnd.random() < 0.6 else min(left, rnd.randint(1, 3))
            parts.append(k)
            left -= k
        nzero = rnd.choice([0, 0, 1, 2])
        for _ in range(nzero):
            parts.insert(rnd.randint(0, len(parts)), 0)
        if rnd.random() < 0.06:
            # nothing but zero-length calls: the header and the step-0 observer call are all there is to see
            n = 0
            parts = [0] * rnd.randint(1, 2)
            sc["steps"] = [{"n": 0}]
        sc["segments"] = [{"entry": rnd.choice(["run", "srun", "irun"]), "n": k} for k in parts]
        if rnd.random() < 0.2:
            for s in sc["segments"]:
                s["entry"] = rnd.choice(["irun", "srun"])
            sc["precreate"] = True
        sc["recorders"] = [rnd.choice(INTERVALS) for _ in range(rnd.randint(1, 4))]
        late = rnd.random() < 0.3 and not sc.get("precreate")
        files = {"logging_interval": rnd.choice([1, 1, 2, 3, 5, -1, -2, -4]), "logging_mode": rnd.choice(["a", "w"])}
        for role in ("logfile", "trajectory", "restart_file"):
            if rnd.random() < 0.6:
                files[role] = {"name": role, "as": rnd.choice(["object", "object", "observer"]), "mode": files["logging_mode"]}
        sc["files"] = files
        if late and "logfile" not in files:
            sc["late_logger"] = True  # (only where no log file was configured: replacing one would end it, by design)
        return sc

    def sample_view(self, sc):
        return {"driver": sc["driver"], "segments": sc["segments"], "recorders": sc["recorders"],
                "files": sorted(k for k in sc["files"] if not k.startswith("logging")),
                "logging_interval": sc["files"]["logging_interval"]}

    def execute(self, sc):
        res = RunResult()
        drv = sc["driver"]
        n = sum(s["n"] for s in sc["segments"])
        try:
            split = execute_split(sc, sc["segments"])
            single = execute_split(dict(sc, precreate=False), [{"entry": "run", "n": n}])
        except Exception as e:  # noqa: BLE001
            info = classify_exception(e)
            if info["harness"]:
                res.harness_error = info["text"]
            elif info["owner"] in ("C15", "C16"):
                res.violations.append(Violation("C15", "exception", f"type={info['type']}|where={info['where']}|driver={drv}", info["text"]))
            else:
                res.foreign.append({k: info[k] for k in ("type", "where", "owner")} | {"phase": "run"})
            return res.pack()
        res.count("steps", 2 * n)
        res.count("evaluations", 2)
        res.count("fault.run_splitting", len(sc["segments"]))
        res.count("fault.zero_length_call", sum(1 for s in sc["segments"] if s["n"] == 0))
        entries = "+".join(sorted({s["entry"] for s in sc["segments"]}))
        shape = ("zero_first" if sc["segments"][0]["n"] == 0 else "zero_inside" if any(s["n"] == 0 for s in sc["segments"])
                 else "single" if len(sc["segments"]) == 1 else "multi")
        signs = "".join(sorted({"+" if i > 0 else "-" for i in sc["recorders"]}))
        res.cover.add(f"{drv}|{shape}|{entries}|{signs}|{'+'.join(sorted(k for k in sc['files'] if not k.startswith('logging')))}")
        ctx = f"driver={drv}|split={shape}"
        # (3) every call performs exactly the requested number of steps
        for seg, done in zip(sc["segments"], split["counts"]):
            if done != seg["n"]:
                res.violations.append(Violation("C15", "wrong_number_of_steps", f"{ctx}|entry={seg['entry']}",
                                                f"{seg['entry']}({seg['n']}) performed {done} steps"))
        # (1) reference call schedule, for both executions
        for label, ex in (("split", split), ("single", single)):
            if ex["counter_mismatch"]:
                res.violations.append(Violation("C15", "step_counter_differs_from_steps_performed",
                                                f"{ctx if label == 'split' else f'driver={drv}|split=single_call'}",
                                                f"{label}: (step_count, steps performed) at observer calls / at the end: {ex['counter_mismatch']}"))
            for i, iv in enumerate(sc["recorders"]):
                want = expected_calls(iv, n)
                got = ex["calls"][i]
                if got != want:
                    res.violations.append(Violation("C15", "observer_schedule_wrong",
                                                    f"{ctx if label == 'split' else f'driver={drv}|split=single_call'}|interval={'positive' if iv > 0 else 'negative'}",
                                                    f"{label} execution {sc['segments'] if label == 'split' else n}: observer with interval {iv} called at steps {got}, expected {want}"))
            log = ex["files"].get("logfile")
            if log is not None and "header" in ex:
                lines = log.split("\n")
                li = sc["files"]["logging_interval"]
                if lines[0] != ex["header"] or lines.count(ex["header"]) != 1:
                    res.violations.append(Violation("C15", "log_header_not_once_first", f"{ctx if label == 'split' else f'driver={drv}|split=single_call'}",
                                                    f"{label}: header appears {lines.count(ex['header'])} times; first line {lines[0][:60]!r}"))
                nrows = len([l for l in lines[1:] if l.strip()])
                if nrows != len(expected_calls(li, n)):
                    res.violations.append(Violation("C15", "log_row_count", f"{ctx if label == 'split' else f'driver={drv}|split=single_call'}",
                                                    f"{label}: {nrows} rows, expected {len(expected_calls(li, n))} for logging_interval {li}"))
            traj = ex["files"].get("trajectory")
            if traj is not None:
                li = sc["files"]["logging_interval"]
                import re as _re
                nframes = len(_re.findall(r"^\d+\n", traj, flags=_re.M))
                if nframes != len(expected_calls(li, n)):
                    res.violations.append(Violation("C15", "trajectory_frame_count", f"{ctx if label == 'split' else f'driver={drv}|split=single_call'}",
                                                    f"{label}: {nframes} frames, expected {len(expected_calls(li, n))} for logging_interval {li}"))
        # (2) splitting changes nothing
        for key in ("step_count", "positions", "cell", "numbers"):
            if split[key] != single[key]:
                res.violations.append(Violation("C15", "split_run_differs", f"{ctx}|what={key}",
                                                f"split {sc['segments']} vs run({n}): {key} differs"))
        for name in sorted(set(split["files"]) | set(single["files"])):
            if split["files"].get(name) != single["files"].get(name):
                a, b = split["files"].get(name, ""), single["files"].get(name, "")
                res.violations.append(Violation("C15", "split_run_differs", f"{ctx}|what=file:{name}",
                                                f"split {sc['segments']} vs run({n}): {name} differs ({len(a)} vs {len(b)} chars)"))
        if split["calls"] != single["calls"]:
            res.violations.append(Violation("C15", "split_run_differs", f"{ctx}|what=observer_calls",
                                            f"split {split['calls']} vs single {single['calls']}"))
        return res.pack()

    def shrink_candidates(self, sc, signature, violation):
        segs = sc["segments"]
        if len(segs) > 1:
            for i in range(len(segs)):
                c = copy.deepcopy(sc)
                del c["segments"][i]
                c["steps"] = [{"n": sum(s["n"] for s in c["segments"])}]
                if c["segments"]:
                    yield c
        for i, s in enumerate(segs):
            if s["n"] > 1:
                c = copy.deepcopy(sc)
                c["segments"][i]["n"] = 1
                c["steps"] = [{"n": sum(x["n"] for x in c["segments"])}]
                yield c
            if s["entry"] != "run":
                c = copy.deepcopy(sc)
                c["segments"][i]["entry"] = "run"
                yield c
        if len(sc["recorders"]) > 1:
            for i in range(len(sc["recorders"])):
                c = copy.deepcopy(sc)
                del c["recorders"][i]
                yield c
        for role in ("logfile", "trajectory", "restart_file"):
            if role in sc["files"]:
                c = copy.deepcopy(sc)
                del c["files"][role]
                yield c
        if sc["driver"] not in ("ForceBias", "AdaptiveForceBias"):
            for c in shrink_mc(sc, signature, violation):
                if c.get("steps") != sc.get("steps"):
                    continue
                yield c

    def nontrivial(self, packed):
        return packed["stats"].get("fault.run_splitting", 0) >= 2 or packed["stats"].get("fault.zero_length_call", 0) > 0


CAMPAIGN = C15()
