"""C12 - constraints on the atoms are respected (displacement, Hamiltonian, force-bias)."""
from __future__ import annotations

import random

import numpy as np
from ase.units import kB

from campaigns.history import HistoryCampaign, gen_history, shrink_mc
from simkit import gen
from simkit.world import FBMonitor, Monitor, make_world


def _fixed_rows(sc):
    rows = set()
    for c in sc["atoms"].get("constraints", []):
        if c["type"] == "FixAtoms":
            rows |= set(c["indices"])
    return sorted(rows)


def _kinds(sc):
    return "+".join(sorted({c["type"] for c in sc["atoms"].get("constraints", [])})) or "none"


def _angular(atoms, positions, momenta):
    """-> (L about the centre of mass, tolerance): the tolerance grows with the condition number of the inertia
    tensor (the statement excludes collinear geometries; nearly collinear ones amplify rounding)."""
    m = atoms.get_masses()
    com = np.average(positions, axis=0, weights=m) if len(positions) else np.zeros(3)
    r = positions - com
    L = np.sum(np.cross(r, momenta), axis=0)
    scale = float(np.sum(np.linalg.norm(r, axis=1) * np.linalg.norm(momenta, axis=1))) + 1e-300
    inertia = np.zeros((3, 3))
    for mi, ri in zip(m, r):
        inertia += mi * (np.dot(ri, ri) * np.eye(3) - np.outer(ri, ri))
    ev = np.linalg.eigvalsh(inertia)
    cond = ev[-1] / ev[0] if ev[0] > 0 else np.inf
    return L, scale * max(1e-8, 1e-12 * cond)


class C12Common:
    prop = "C12"

    def rebase(self, w, ed):
        # new baseline: the structure and constraints the user has now put in place
        sc2 = {"atoms": {"constraints": ed.get("constraints", w.sc["atoms"].get("constraints", []))}}
        self.rows = _fixed_rows(sc2)
        self.fixed0 = w.atoms.positions[self.rows].copy() if self.rows else None
        self.com0 = w.atoms.get_center_of_mass() if len(w.atoms) else np.zeros(3)
        self.kinds = _kinds(sc2)
        self.has_com = "FixCom" in self.kinds
        self.has_rot = "FixRot" in self.kinds and "FixAtoms" not in self.kinds
        self.nchecks = 0

    def setup(self, w):
        self.rows = _fixed_rows(w.sc)
        self.fixed0 = w.atoms.positions[self.rows].copy() if self.rows else None
        # where the number of atoms changes (grand canonical runs) the user's fixed atoms are followed by identity
        self.by_uid = None
        if w.sc["driver"] == "GrandCanonical" and "uid" in w.atoms.arrays and self.rows:
            uid = w.atoms.arrays["uid"]
            self.by_uid = {int(uid[r]): w.atoms.positions[r].copy() for r in self.rows}
        self.com0 = w.atoms.get_center_of_mass() if len(w.atoms) else np.zeros(3)
        self.kinds = _kinds(w.sc)
        self.has_com = "FixCom" in self.kinds
        # the momentum clauses of FixRot are judged when no FixAtoms zeroes part of the momenta afterwards
        self.has_rot = "FixRot" in self.kinds and "FixAtoms" not in self.kinds
        self.nchecks = 0

    def check_positions(self, w, where, ctx):
        atoms = w.atoms
        self.nchecks += 1
        # the constraints the user set must still be ON the atoms (nothing in the package may take them off)
        have = "+".join(sorted({type(c).__name__ for c in atoms.constraints})) or "none"
        # (not in grand-canonical runs: ASE itself drops a FixAtoms whose atoms have all been deleted)
        if have != self.kinds and w.sc["driver"] != "GrandCanonical" and not getattr(self, "reported_removed", False):
            self.reported_removed = True
            self.violate(w, "constraint_removed_from_atoms", f"{ctx}|constraints={self.kinds}|at={where}",
                         f"the user set {self.kinds}; the atoms now carry {have}")
        if getattr(self, "by_uid", None) is not None:
            uid = atoms.arrays.get("uid")
            if uid is None or len(uid) != len(atoms):
                return
            where_uid = {int(u): i for i, u in enumerate(uid)}
            for u, p0 in self.by_uid.items():
                i = where_uid.get(u)
                if i is not None and not np.array_equal(atoms.positions[i], p0):
                    d = float(np.max(np.abs(atoms.positions[i] - p0)))
                    self.violate(w, "fixed_atom_moved", f"{ctx}|constraints={self.kinds}|at={where}",
                                 f"the atom the user fixed (uid {u}, now row {i}) moved by {d:.3e}; FixAtoms now holds "
                                 f"{[c.index.tolist() for c in atoms.constraints if hasattr(c, 'index')]}")
                    self.by_uid[u] = atoms.positions[i].copy()
            return
        if self.rows:
            cur = atoms.positions[self.rows]
            if cur.shape != self.fixed0.shape or not np.array_equal(cur, self.fixed0):
                d = float(np.max(np.abs(cur - self.fixed0))) if cur.shape == self.fixed0.shape else float("nan")
                self.violate(w, "fixed_atom_moved", f"{ctx}|constraints={self.kinds}|at={where}",
                             f"fixed rows {self.rows} moved by up to {d:.3e}")
                self.fixed0 = cur.copy()
        if self.has_com and len(atoms):
            com = atoms.get_center_of_mass()
            tol = 1e-9 * max(1.0, float(np.max(np.abs(atoms.positions)))) * (1 + self.nchecks) ** 0.5
            if np.max(np.abs(com - self.com0)) > tol:
                self.violate(w, "centre_of_mass_drift", f"{ctx}|constraints={self.kinds}|at={where}",
                             f"COM moved by {np.abs(com - self.com0).max():.3e}")
                self.com0 = com


class C12Monitor(Monitor, C12Common):
    prop = "C12"

    def on_build(self, w):
        self.setup(w)
        if w.gen is not None:
            w.gen.normals = []

    def _ctx(self, w, name):
        return f"driver={w.sc['driver']}|move={w.move_cat(name)}"

    def on_user_edit(self, w, ed):
        self.rebase(w, ed)

    def _applies(self, w, name):
        # "with constraint application enabled (the default)"
        def flag(m):
            if m["type"] in ("sum", "wrap"):
                return all(flag(x) for x in m["items"])
            if m["type"] == "mul":
                return flag(m["item"])
            return m.get("apply_constraints", True)
        for i, e in enumerate(w.sc["moves"]):
            if e.get("name", f"m{i}") == name:
                return flag(e["move"])
        return True

    def before_trial(self, w, name):
        if w.gen is not None:
            w.gen.normals = []

    def on_criteria_enter(self, w, name, context, inner, ev):
        if self._applies(w, name):
            self.check_positions(w, "criteria_entry", self._ctx(w, name))

    def on_trial(self, w, name, verdict, pre, post):
        w.result.cover.add(f"{w.sc['driver']}|{w.move_kind(name)}|{verdict}|{self.kinds}")
        if self._applies(w, name):
            self.check_positions(w, "after_trial", self._ctx(w, name))

    RESTART_STEPS = 6

    def on_end(self, w):
        """Fault 'the process is replaced': the simulation is rebuilt from its own saved state the documented way
        (to_dict -> JSON -> from_dict -> attach a calculator) and continued; "all histories" includes the ones that go
        through a restart, and what the user fixed must stay fixed in the continuation.  Judged only where ASE itself
        can rebuild the constraint from JSON (FixAtoms, FixCom), outside grand-canonical tables (fixed atoms are
        followed by identity there) and when every move of the table applies constraints.  A rebuild or continuation
        that raises is not C12's business (C07 / C08 judge it) and is skipped."""
        sc = w.sc
        if (w.aborted or sc["driver"] == "GrandCanonical" or not self.kinds or self.kinds == "none"
                or not set(self.kinds.split("+")) <= {"FixAtoms", "FixCom"} or w.trial == 0):
            return
        if not all(self._applies(w, e.get("name", f"m{i}")) for i, e in enumerate(sc["moves"])):
            return
        try:
            from ase.io.jsonio import decode, encode
            from simkit import calcs
            from simkit.world import driver_class

            mc2 = driver_class(sc["driver"]).from_dict(decode(encode(w.mc.to_dict())))
            mc2.atoms.calc = calcs.make_calc(w.calc_spec)
            a2 = mc2.atoms
            have = "+".join(sorted({type(c).__name__ for c in a2.constraints})) or "none"
            fixed0 = a2.positions[self.rows].copy() if self.rows else None
            com0 = a2.get_center_of_mass()
            mc2.run(self.RESTART_STEPS)
        except Exception:  # noqa: BLE001
            w.result.count("restart_continuation.skipped")
            return
        w.result.count("fault.restart_continuation")
        ctx = f"driver={sc['driver']}|constraints={self.kinds}|at=after_restart"
        if have != self.kinds:
            self.violate(w, "constraint_removed_from_atoms", ctx,
                         f"the user set {self.kinds}; the atoms of the simulation rebuilt from the saved state carry {have}")
        if self.rows and not np.array_equal(a2.positions[self.rows], fixed0):
            self.violate(w, "fixed_atom_moved", ctx, f"fixed rows {self.rows} moved by up to "
                         f"{float(np.max(np.abs(a2.positions[self.rows] - fixed0))):.3e} in the {self.RESTART_STEPS} steps after a restart")
        if self.has_com and len(a2):
            d = float(np.max(np.abs(a2.get_center_of_mass() - com0)))
            if d > 1e-9 * max(1.0, float(np.max(np.abs(a2.positions)))) * (1 + 8 * self.RESTART_STEPS) ** 0.5:
                self.violate(w, "centre_of_mass_drift", ctx, f"COM moved by {d:.3e} in the {self.RESTART_STEPS} steps after a restart")

    def on_momenta_drawn(self, w, ev):
        if not self.has_rot or not len(w.atoms):
            return
        atoms = w.atoms
        p = ev["momenta"]
        L, tol = _angular(atoms, atoms.positions, p)
        w.result.count("probe.fixrot_momenta_checked")
        if np.isfinite(tol) and np.max(np.abs(L)) > tol:
            self.violate(w, "angular_momentum_not_removed", f"driver={w.sc['driver']}|move=hmc|constraints={self.kinds}",
                         f"|L|={np.abs(L).max():.3e} (tolerance {tol:.3e}) after momentum refresh")
        if w.gen is not None and w.gen.normals:
            z = w.gen.normals[-1]
            if z.shape == p.shape:
                kt = w.mc.context.temperature * kB
                unadj = z * np.sqrt(atoms.get_masses() * kt)[:, None]
                # FixAtoms zeroes momenta of fixed atoms, FixCom removes the total: compare only
                # when FixRot is the sole constraint
                if self.kinds == "FixRot":
                    dP = np.sum(p, axis=0) - np.sum(unadj, axis=0)
                    if np.max(np.abs(dP)) > 1e-8 * (np.sum(np.abs(unadj)) + 1e-300):
                        self.violate(w, "linear_momentum_changed_by_fixrot",
                                     f"driver={w.sc['driver']}|move=hmc|constraints={self.kinds}",
                                     f"total momentum changed by {np.abs(dP).max():.3e}")


class C12FBMonitor(FBMonitor, C12Common):
    prop = "C12"

    def on_build(self, w):
        self.setup(w)

    def on_fbstep(self, w, pre, post):
        ctx = f"driver={w.sc['driver']}|move=fbstep"
        w.result.cover.add(f"{w.sc['driver']}|fbstep|{self.kinds}")
        self.check_positions(w, "after_step", ctx)
        if self.has_rot and len(w.atoms) > 1:
            # the momenta the constraint was handed and adjusted (the driver builds them from its own scaling masses,
            # which need not be the atoms' masses) are still on the atoms after the step
            pmom = np.array(w.atoms.get_momenta(), copy=True)
            L, tol = _angular(w.atoms, pre["positions"], pmom)
            w.result.count("probe.fixrot_fb_checked")
            if np.isfinite(tol) and np.max(np.abs(L)) > tol:
                self.violate(w, "angular_momentum_not_removed", ctx + f"|constraints={self.kinds}",
                             f"|L|={np.abs(L).max():.3e} (tolerance {tol:.3e}) of the step momenta")
            if self.kinds == "FixRot":
                mc = w.mc
                unadj = mc.zeta * mc.delta * np.power(np.min(mc.shaped_masses) / mc.shaped_masses, mc.masses_scaling_power)
                dP = np.sum(pmom, axis=0) - np.sum(mc.shaped_masses * unadj, axis=0)
                if np.max(np.abs(dP)) > 1e-8 * (np.sum(np.abs(mc.shaped_masses * unadj)) + 1e-300):
                    self.violate(w, "linear_momentum_changed_by_fixrot", ctx + f"|constraints={self.kinds}",
                                 f"total momentum changed by {np.abs(dP).max():.3e}")


class C12(HistoryCampaign):
    prop = "C12"
    flavor = {
        "drivers": ["Canonical", "HamiltonianCanonical", "HamiltonianCanonical", "GrandCanonical"],
        "calc_styles": ["caching", "stateless"],
        "scales": ["moderate"], "constraints": 1.0,
        # FixAtoms + FixCom is not generated: ASE applies constraints one after the other, so the
        # last one (a global shift, or a row reset) undoes the other by construction - not quansino's doing
        "constraint_kinds": ["fixatoms", "fixcom", "fixrot", "fixrot", "fixatoms+fixrot", "fixcom+fixrot"],
        "arrays": 0.3, "composites": 0.4, "extended": 0.0, "gc_fixatoms_always": True,
        "p_force": [0.0, 0.5, 0.9], "p_veto": [0.0, 0.1, 0.3], "preselect": 0.1, "steps_max": 12, "triclinic": 0.3,
    }
    rule = ("one evaluation = one generated deployment with FixAtoms / FixCom / FixRot (and combinations) under "
            "displacement, composite, rotation-of-molecule and Hamiltonian moves (random dt, step count), displacement "
            "moves next to exchange moves in grand-canonical tables (FixAtoms, fixed atoms followed by identity), or "
            "force-bias steps (random delta, T, mass powers); fixed rows, centre of mass, angular and linear momentum "
            "are checked at criteria entry and after every trial / step; distinct = (driver, move kind, verdict, "
            "constraint kinds) tuples; non-trivial = at least one trial or step executed; at the end of every eligible "
            "history (FixAtoms / FixCom, no exchange moves) the simulation is rebuilt from to_dict -> JSON -> from_dict "
            "and continued for 6 steps under the same invariants (counter fault.restart_continuation)")
    assumptions = ["FixRot is only combined with non-periodic clusters (its documented domain)",
                   "moves built with apply_constraints=False are exempt, as the statement says"]

    def generate(self, rnd, tier, index):
        if rnd.random() < 0.3:
            return self.gen_fb(rnd)
        sc = gen_history(rnd, self.flavor)
        if sc["driver"] == "GrandCanonical":
            # exchange moves in the table: deletions re-index FixAtoms, the user's fixed atoms are followed by identity
            return sc
        if rnd.random() < 0.3 and "FixRot" not in _kinds(sc):
            # the user runs, then edits the structure and sets the constraints, then continues the same simulation
            total = sum(s["n"] for s in sc["steps"])
            sc["steps"] = [{"n": max(1, total // 2)}, {"n": max(1, total - total // 2)}]
            cons = sc["atoms"]["constraints"]
            sc["atoms"]["constraints"] = []
            n = len(sc["atoms"]["numbers"])
            sc["edits"] = [{"before_segment": 1, "shift": [gen.rfloat(rnd, -0.8, 0.8, 3) for _ in range(3)],
                            "rows": sorted(rnd.sample(range(n), rnd.randint(1, n))), "constraints": cons}]
        if _kinds(sc) in ("FixAtoms", "FixAtoms+FixRot") and rnd.random() < 0.3:
            # a trajectory is written while the run goes on (ASE's extended-xyz writer copes with constraint lists
            # that start with FixAtoms)
            sc["files"] = {"trajectory": {"name": "traj.xyz", "as": "object", "mode": "a"}, "logging_interval": rnd.choice([1, 2])}
        if "FixRot" in _kinds(sc) and len(sc["atoms"]["numbers"]) < 3:
            sc["atoms"]["constraints"] = [c for c in sc["atoms"]["constraints"] if c["type"] != "FixRot"] or [{"type": "FixCom"}]
        return sc

    def gen_fb(self, rnd):
        cell = gen.gen_cell(rnd)
        n = rnd.randint(3, 7)
        kind = rnd.choice(["fixatoms", "fixcom", "fixatoms+fixrot", "fixrot", "fixcom+fixrot"])
        atoms = gen.gen_atoms(rnd, n, cell, arrays=0.2, uid=False, constraints=kind)
        sc = {"driver": "ForceBias", "seed": rnd.randint(1, 2**31 - 1), "atoms": atoms,
              "calc": {"style": "caching", "pot": gen.gen_pot(rnd, cell, rnd.choice(["moderate", "extreme"]))},
              "params": {"delta": gen.logu(rnd, 1e-3, 0.5), "temperature": gen.gen_temperature(rnd, "extreme")},
              "steps": [{"n": rnd.randint(1, 25)}]}
        if rnd.random() < 0.5:
            sc["params"]["masses_scaling_power"] = gen.rfloat(rnd, 0.0, 1.0, 3)
        if rnd.random() < 0.4:
            sc["params"]["update_masses"] = ([gen.logu(rnd, 0.5, 300.0) for _ in range(n)] if rnd.random() < 0.5
                                             else [[gen.logu(rnd, 0.5, 300.0) for _ in range(3)] for _ in range(n)])
        return sc

    def make_monitors(self, sc):
        return [C12FBMonitor()] if sc["driver"] == "ForceBias" else [C12Monitor()]

    def sample_view(self, sc):
        if sc["driver"] == "ForceBias":
            return {"driver": "ForceBias", "natoms": len(sc["atoms"]["numbers"]), "constraints": _kinds(sc),
                    "params": sc["params"], "steps": sc["steps"]}
        return super().sample_view(sc)

    def shrink_candidates(self, sc, signature, violation):
        if sc["driver"] == "ForceBias":
            import copy
            n = sc["steps"][0]["n"]
            if n > 1:
                for k in (1, n // 2, n - 1):
                    c = copy.deepcopy(sc)
                    c["steps"] = [{"n": max(1, k)}]
                    yield c
            return
        yield from shrink_mc(sc, signature, violation)

    def nontrivial(self, packed):
        return packed["stats"].get("trials", 0) + packed["stats"].get("steps", 0) > 0

    def budget(self, tier):
        return {"runs": 5000, "wall_s": 170} if tier == "quick" else {"runs": 500000, "wall_s": 1500}


CAMPAIGN = C12()
