"""C04 - energies used for acceptance belong to the configuration they describe."""
from __future__ import annotations

import numpy as np

from campaigns.history import HistoryCampaign
from simkit import calcs
from simkit.simfs import SimDisk
from simkit.world import Monitor, make_world


def _close(a, b):
    return abs(a - b) <= 1e-9 * max(1.0, abs(a), abs(b))


class C04Monitor(Monitor):
    prop = "C04"

    def __init__(self):
        self.nevals_at_step_end = None
        self.log_rows_seen = 0
        self.reverted_count_change = False
        self.step_had_hmc = False
        self.fresh_calculator = False

    def on_user_edit(self, w, ed):
        if ed.get("fresh_calculator"):
            # until the new instance has evaluated the current configuration there is no result to restore: an EMPTY
            # cache (one recomputation when somebody asks) is the only correct state; a filled one is still judged
            self.fresh_calculator = True
            self.nevals_at_step_end = None

    def _ctx(self, w, name, verdict):
        return (f"driver={w.sc['driver']}|move={w.move_cat(name)}|verdict={verdict}|"
                f"calc={w.sc['calc'].get('style')}")

    def on_step_begin(self, w):
        # observers (logger incl.) ran between the previous step end and now
        if (self.nevals_at_step_end is not None and w.calc_spec["style"] in ("caching", "ase_lj", "nlstub")
                and not self.step_had_hmc):
            extra = w.calc.nevals - self.nevals_at_step_end
            if extra and self.fresh_calculator:
                w.result.count("probe.fresh_calculator_first_evaluation")
            elif extra:
                self.violate(w, "observer_call_costs_evaluation",
                             f"driver={w.sc['driver']}|calc={w.calc_spec['style']}|logger={int(w.disk is not None)}",
                             f"{extra} extra energy evaluation(s) between two steps (observer calls)")
        self._check_log(w)
        self.step_had_hmc = False

    def on_segment_end(self, w):
        self.on_step_begin(w)
        self.nevals_at_step_end = None

    def _check_log(self, w):
        if w.disk is None or "log" not in w.disk.files:
            return
        text = w.disk.files["log"].durable
        rows = [l for l in text.split("\n")[1:] if l.strip()]
        if len(rows) > self.log_rows_seen:
            self.log_rows_seen = len(rows)
            try:
                reported = float(rows[-1].split()[-1])
            except ValueError:
                return
            ref = calcs.reference_energy(w.calc_spec, w.atoms)
            if not np.isfinite(ref) or getattr(self, "nonfinite", False):
                return
            w.result.count("probe.logged_energy_checked")
            if not _close(reported, ref):
                self.violate(w, "reported_energy_wrong", f"driver={w.sc['driver']}|calc={w.calc_spec['style']}|via=logger",
                             f"logger reported {reported!r} for the current atoms, from-scratch value {ref!r}")

    def on_step_end(self, w):
        self.nevals_at_step_end = w.calc.nevals

    def before_trial(self, w, name):
        self.cache_ok_pre = True
        if w.calc_spec["style"] in ("caching", "ase_lj", "nlstub"):
            try:
                self.cache_ok_pre = w.calc.atoms is not None and not w.calc.check_state(w.atoms)
            except Exception:  # noqa: BLE001
                self.cache_ok_pre = False

    def on_trial(self, w, name, verdict, pre, post):
        style = w.calc_spec["style"]
        ctx = w.mc.context
        ref = calcs.reference_energy(w.calc_spec, w.atoms)
        if not np.isfinite(ref) or getattr(self, "nonfinite", False):
            # an integrator blow-up on a hard core (then force-accepted by the tape) leaves NaN energies: the
            # statement is about finite energies; nothing in this run is judged from here on
            if not getattr(self, "nonfinite", False):
                w.result.count("probe.nonfinite_energy_runs")
            self.nonfinite = True
            return
        kind = w.move_kind(name)
        w.result.cover.add(f"{w.sc['driver']}|{kind}|{verdict}|{style}")
        c = self._ctx(w, name, verdict)
        # (a) reference energy / remembered geometry for the next acceptance test
        if post["last_e"] is not None and not _close(float(post["last_e"]), ref):
            self.violate(w, "reference_energy_stale", c,
                         f"context.last_potential_energy={post['last_e']!r} but E(current atoms)={ref!r}")
        if post["last_positions"] is not None and (post["last_positions"].shape != post["positions"].shape
                                                   or not np.array_equal(post["last_positions"], post["positions"])):
            self.violate(w, "remembered_positions_stale", c, "context.last_positions != atoms.positions")
        if post["last_cell"] is not None and not np.array_equal(post["last_cell"], post["cellarr"]):
            self.violate(w, "remembered_cell_stale", c, "context.last_cell != atoms.cell")
        if w.crit_events and verdict is False and w.crit_events[0]["n"] != pre["n"]:
            self.reverted_count_change = True
        if verdict is True:
            self.fresh_calculator = False
        if "hmc" in kind:
            # "Hamiltonian moves apart": the integrator evaluates forces as often as it needs
            self.step_had_hmc = True
        # (b) what the calculator would report for the current atoms without recomputing
        # (with zero atoms ASE's compare_atoms reports a change between a missing and an empty
        #  per-atom array, which says nothing about quansino: cache clauses need >= 1 atom)
        if style in ("caching", "ase_lj", "nlstub") and "hmc" not in kind and len(w.atoms) > 0 and pre["n"] > 0:
            calc = w.calc
            try:
                changes = calc.check_state(w.atoms) if calc.atoms is not None else ["no-atoms"]
            except Exception as e:  # noqa: BLE001
                changes = [f"check_state raised {type(e).__name__}"]
            if changes:
                # a trial that never reached its criteria need not repair a cache that was
                # already invalid before it (e.g. after a failed Hamiltonian trial)
                if verdict is not None or self.cache_ok_pre:
                    self.violate(w, "cache_lost_recomputation_needed", c,
                                 f"after the trial the calculator would have to recompute the current energy: {changes}")
            else:
                e = calc.results.get("energy")
                if e is None and self.fresh_calculator and not calc.results:
                    w.result.count("probe.fresh_calculator_cache_empty")
                elif e is None or not _close(float(e), ref):
                    self.violate(w, "cached_energy_belongs_to_other_configuration", c,
                                 f"calculator would report {e!r} from cache; from-scratch value {ref!r}")
            # (c) evaluation budget
            if "hmc" not in kind:
                d = post["nevals"] - pre["nevals"]
                changed = False
                if w.crit_events:
                    ev = w.crit_events[0]
                    # "changed" at the resolution ASE calculators use to compare configurations
                    changed = (ev["n"] != pre["n"] or np.max(np.abs(ev["positions"] - pre["positions"]), initial=0.0) > 1e-10
                               or np.max(np.abs(ev["cell"] - pre["cellarr"])) > 1e-10)
                if verdict is None:
                    if d != 0:
                        self.violate(w, "failed_trial_costs_evaluation", c, f"{d} evaluations")
                else:
                    if d > 1:
                        self.violate(w, "more_than_one_evaluation_per_trial", c, f"{d} evaluations in one trial")
                    elif changed and d != 1:
                        self.violate(w, "configuration_changed_without_evaluation", c, f"{d} evaluations")
                    w.result.count("probe.eval_budget_checked")

    def on_exception(self, w, info):
        if info["owner"] == "C04":
            last = w.mc.move_history[-1] if w.mc.move_history else None
            hist = "after_reverted_atom_count_change" if self.reverted_count_change else "other"
            self.violate(w, "calculator_unusable",
                         f"driver={w.sc['driver']}|calc={w.calc_spec['style']}|type={info['type']}|history={hist}",
                         f"during a {w.move_kind(info['move']) if info['move'] else '-'} trial:\n" + info["text"])
            return True
        return False


class C04(HistoryCampaign):
    prop = "C04"
    monitor_cls = C04Monitor
    flavor = {
        "drivers": ["Canonical", "HamiltonianCanonical", "Isobaric", "Isotension", "GrandCanonical", "GrandCanonical"],
        "calc_styles": ["caching", "caching", "stateless", "ase_lj", "ase_lj", "nlstub"],
        "scales": ["moderate"], "constraints": 0.2, "arrays": 0.3, "composites": 0.3, "extended": 0.1,
        "p_force": [0.0, 0.4, 0.8], "p_veto": [0.0, 0.15, 0.3], "preselect": 0.1, "steps_max": 10,
    }
    rule = ("one evaluation = one generated deployment stepped trial by trial, energies compared with an "
            "independent from-scratch evaluation after EVERY trial; distinct = (driver, move kind, verdict, "
            "calculator style) tuples; non-trivial = at least one trial executed")
    assumptions = ["the reference energy is the analytic potential (or a fresh ASE LennardJones instance) on the current atoms",
                   "evaluation counts are judged for result-caching calculator styles only; Hamiltonian moves are exempt as the property says"]

    def generate(self, rnd, tier, index):
        sc = super().generate(rnd, tier, index)
        if len(sc["steps"]) > 1 and rnd.random() < 0.4:
            # the user attaches a fresh calculator between two run() calls: the reference energy is kept, the result
            # cache of the new instance is empty until something is evaluated (seeded C04-5)
            sc["edits"] = [{"before_segment": 1, "fresh_calculator": True}]
        if rnd.random() < 0.2:
            sc["calc_used_before"] = True
        if sc["driver"] in ("Isobaric", "Isotension") and rnd.random() < 0.15:
            # the box is rescaled after the simulation object was built and before it is run for the first time
            from simkit import gen

            sc.setdefault("edits", []).append({"before_segment": 0, "cell_scale": gen.rfloat(rnd, 0.85, 1.2, 3)})
        if rnd.random() < 0.5:
            sc["files"] = {"logfile": {"name": "log", "as": "object", "mode": "a"}, "logging_interval": 1}
        return sc

    def execute(self, sc):
        disk = SimDisk() if sc.get("files") else None
        w, failed = self.build_world(sc, [C04Monitor()], disk)
        if failed is not None:
            return failed
        if disk is not None and w.mc.default_logger is not None:
            # full-precision column through the public add_field API
            w.mc.default_logger.add_field("Efull", w.atoms.get_potential_energy, "{:.17g}")
        res = w.run()
        w.mc.close()
        return res.pack()

    def budget(self, tier):
        return {"runs": 6000, "wall_s": 170} if tier == "quick" else {"runs": 600000, "wall_s": 1500}


CAMPAIGN = C04()
