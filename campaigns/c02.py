"""C02 - acceptance decisions equal the textbook Metropolis rule.

The acceptance monitor rides on every trial of the history campaign.  Its two inputs
arrive over seams the simulator owns: the uniform number from the driver's generator
(SimGen in acceptance mode, optionally scripted to sit just below / above A) and the
energies from the calculator (recomputed independently from the configurations).
"""
from __future__ import annotations

import math

import numpy as np
from ase.units import kB

from campaigns.history import HistoryCampaign, gen_history
from simkit import calcs, gen
from simkit.world import Monitor

H_SI = 6.62607015e-34
KB_SI = 1.380649e-23
AMU = 1.66053906660e-27


def debroglie_cubed(mass_amu: float, T: float) -> float:
    lam = H_SI / math.sqrt(2 * math.pi * mass_amu * AMU * KB_SI * T) * 1e10  # Angstrom
    return lam**3


class C02Monitor(Monitor):
    prop = "C02"

    def on_build(self, w):
        self.judged = 0
        # number of exchangeable particles: the user's initial value, then accepted insertions minus deletions as
        # seen in the atoms (not the code's own counter)
        self.N_true = w.sc.get("params", {}).get("number_of_exchange_particles")
        self.N_consistent = True
        self.labels_merged = False

    def _observe_label_merge(self, w):
        """Open finding KF-C05: particles inserted by one composite exchange call share one label.  Observed directly on
        the exchange moves' labels (a non-negative label covering more atoms than one particle has)."""
        if self.labels_merged or not hasattr(w, "template") or not len(w.template):
            return
        k = len(w.template)
        for name in w.mc.moves:
            for lf in w.leaves_of(w.mc.moves[name].move):
                if type(lf).__name__ == "ExchangeMove" and (lf.default_label is None or lf.default_label < 0):
                    lab = np.asarray(lf.labels)
                    lab = lab[lab >= 0]
                    if len(lab) and np.max(np.bincount(lab)) > k:
                        self.labels_merged = True
                        w.result.count("probe.labels_merged_kf_c05")
                        return

    def on_trial(self, w, name, verdict, pre, post):
        if self.N_true is None or not hasattr(w, "template"):
            return
        k = len(w.template)
        dn = post["n"] - pre["n"]
        if verdict is True and dn:
            if k and dn % k == 0:
                self.N_true += dn // k
            else:
                self.N_consistent = False

    def before_trial(self, w, name):
        self.E_pre = calcs.reference_energy(w.calc_spec, w.atoms)
        self.V_pre = float(abs(np.linalg.det(w.atoms.cell.array)))
        self.cell_pre = np.array(w.atoms.cell.array, copy=True)
        self.n_pre = len(w.atoms)
        self.N_pre = getattr(w.mc.context, "number_of_exchange_particles", None)
        self._observe_label_merge(w)

    def _lnA(self, w, inner, after: bool):
        """Reference ln A for the trial configuration now on the atoms.
        Returns (lnA or None if not judged, kind, energy_scale)"""
        cname = type(inner).__name__
        mc = w.mc
        atoms = w.atoms
        T = w.user.get("temperature")
        if T is None or not (T > 0):
            return None, cname, 0.0
        kT = T * kB
        E_new = calcs.reference_energy(w.calc_spec, atoms)
        dE = E_new - self.E_pre
        scale = abs(E_new) + abs(self.E_pre)
        if cname == "CanonicalCriteria":
            return -dE / kT, "canonical", scale
        if cname == "HamiltonianCanonicalCriteria":
            # total energy at the start of the trajectory that produced the trial state: the kinetic energy the
            # atoms carried when the (last, successful) integration began - which must be that of the freshly
            # drawn momenta
            if not w.integrate_events:
                return None, "hamiltonian", scale
            ke0 = w.integrate_events[-1]["ke"]
            ke1 = float(atoms.get_kinetic_energy())
            return -((E_new + ke1) - (self.E_pre + ke0)) / kT, "hamiltonian", scale + ke0 + ke1
        if cname in ("IsobaricCriteria", "IsotensionCriteria"):
            V = float(abs(np.linalg.det(atoms.cell.array)))
            P = float(w.user.get("pressure") or 0.0)
            ln = -(dE + P * (V - self.V_pre)) / kT + (len(atoms) + 1) * math.log(V / self.V_pre)
            scale += abs(P * V) + abs(P * self.V_pre)
            if cname == "IsobaricCriteria":
                return ln, "isobaric", scale
            S = np.asarray(w.user["external_stress"], dtype=float)
            hydro = np.allclose(S, P * np.eye(3), rtol=0, atol=1e-300)
            if hydro:
                return ln, "isotension_hydrostatic", scale
            if not after:
                return None, "isotension", scale
            eps = getattr(inner, "strain_tensor", None)
            if eps is None:
                return None, "isotension", scale
            work = self.V_pre * float(np.trace((S - P * np.eye(3)) @ np.asarray(eps)))
            return ln - work / kT, "isotension", scale + abs(work)
        if cname == "GrandCanonicalCriteria":
            k = len(w.template)
            dn = len(atoms) - self.n_pre
            if dn == 0:
                return -dE / kT, "gc_no_exchange", scale
            if k == 0 or dn % k or abs(dn // k) != 1:
                return None, "gc_multi", scale
            if not self.N_consistent:
                return None, "gc_untracked", scale
            N = int(self.N_true)
            V = float(w.user["accessible_volume"])
            mu = float(w.user["chemical_potential"])
            lam3 = debroglie_cubed(float(w.template.get_masses().sum()), T)
            if dn > 0:
                return math.log(V / (lam3 * (N + 1))) + (mu - dE) / kT, "gc_insertion", scale + abs(mu)
            if N <= 0:
                return -math.inf, "gc_deletion", scale
            return math.log(lam3 * N / V) + (-mu - dE) / kT, "gc_deletion", scale + abs(mu)
        return None, cname, scale

    def on_criteria_enter(self, w, name, context, inner, ev):
        g = w.gen
        g.capture = []
        g.script = None
        mode = w.sc.get("u_tape", {}).get(str(w.trial + w.trial_offset))
        if mode:
            lnA, kind, _ = self._lnA(w, inner, after=False)
            if mode == "zero":
                g.script = 0.0
            elif mode == "max":
                g.script = 1.0 - 2.0**-53
            elif lnA is not None and -700 < lnA < 0:
                A = math.exp(lnA)
                g.script = A * (1 - 1e-6) if mode == "below" else min(A * (1 + 1e-6), 1.0 - 2.0**-53)
            if g.script is not None:
                w.result.count(f"fault.scripted_u_{mode}")

    def on_criteria_exit(self, w, name, context, inner, verdict, ev):
        g = w.gen
        us = g.capture or []
        g.capture = None
        g.script = None
        lnA, kind, scale = self._lnA(w, inner, after=True)
        drv = w.sc["driver"]
        w.result.cover.add(f"{drv}|{kind}|{w.move_cat(name)}|{'acc' if verdict else 'rej'}|"
                           f"{'big' if lnA is not None and abs(lnA) > 709 else 'norm'}|{w.sc['calc'].get('style')}")
        if lnA is None or math.isnan(lnA):
            w.result.count("probe.unjudged_" + kind)
            return
        T = float(w.user["temperature"])
        u = us[0] if len(us) == 1 else None
        if lnA >= 0:
            expected = True
        elif lnA == -math.inf:
            expected = False
        elif u is None:
            w.result.count("probe.unjudged_no_scalar_uniform")
            return
        else:
            lnu = math.log(u) if u > 0 else -math.inf
            if u == 0.0 and lnA < -700:
                # A itself is below the smallest double: u = 0 < A only in exact arithmetic
                w.result.count("probe.boundary_indeterminate")
                return
            slack = 1e-9 * (1 + abs(lnA)) + 1e-12 * scale / (T * kB)
            if abs(lnu - lnA) < slack:
                w.result.count("probe.boundary_indeterminate")
                return
            expected = lnu < lnA
        if lnA >= 0 and lnA < (1e-9 + 1e-12 * scale / (T * kB)):
            w.result.count("probe.boundary_indeterminate")
            return
        self.judged += 1
        w.result.count("probe.decisions_judged")
        if abs(lnA) > 709:
            w.result.count("probe.beyond_709_favourable" if lnA > 0 else "probe.beyond_709_unfavourable")
        if bool(verdict) != expected:
            case = "rejected_but_rule_accepts" if expected else "accepted_but_rule_rejects"
            if (kind in ("gc_insertion", "gc_deletion") and self.labels_merged and self.N_pre is not None
                    and int(self.N_pre) != int(self.N_true)):
                # consequence of the open finding KF-C05 (see DESIGN.md section 11): a label shared by several particles
                # was deleted as "one particle", the simulation's particle counter is off from here on
                self.violate(w, "particle_counter_wrong_after_label_merge",
                             f"driver={drv}|table=composite_exchange",
                             f"the simulation counts {self.N_pre} exchangeable particles, the atoms hold {self.N_true}; "
                             f"{type(inner).__name__} returned {verdict!r}, ln A with the true count = {lnA!r}, u = {u!r}")
                return
            self.violate(w, "wrong_decision", f"rule={kind}|driver={drv}|case={case}",
                         f"{type(inner).__name__} returned {verdict!r}; ln A = {lnA!r}, u = {u!r} "
                         f"(T={T}, move {w.move_kind(name)})")

    def on_exception(self, w, info):
        if info["owner"] == "C02":
            self.violate(w, "criteria_raised", f"type={info['type']}|driver={w.sc['driver']}", info["text"])
            return True
        return False


class C02(HistoryCampaign):
    prop = "C02"
    monitor_cls = C02Monitor
    world_opts = {"record_integrator": True}
    flavor = {
        "drivers": ["Canonical", "HamiltonianCanonical", "Isobaric", "Isobaric", "Isotension", "Isotension",
                    "GrandCanonical", "GrandCanonical"],
        "calc_styles": ["caching", "stateless"],
        "scales": ["moderate", "extreme", "extreme"], "constraints": 0.2, "arrays": 0.2, "composites": 0.2, "extended": 0.1,
        "constraint_kinds": ["fixatoms", "fixcom", "fixatoms+fixcom", "hookean", "hookean", "hookean"],
        "p_force": [0.0, 0.0, 0.3], "p_veto": [0.0, 0.1, 0.3], "preselect": 0.1, "steps_max": 10, "param_tape": 0.4,
        "exch_composites": True, "triclinic": 0.6, "accessible_volume": 0.4,
    }
    rule = ("one evaluation = one generated deployment; EVERY acceptance decision taken in it is refereed against "
            "ln u < ln A computed independently in log space (energies re-evaluated from the configurations, "
            "CODATA de Broglie wavelength); scales span |dE|/kT from 1e-6 to beyond 1e10, sheared cells, N=0, "
            "parameter changes between trials, scripted uniforms at 0, A(1-1e-6), A(1+1e-6), 1-2^-53; distinct = "
            "(driver, rule, move category, decision, |ln A|>709?, calculator style) tuples; non-trivial = at least "
            "one decision judged")
    assumptions = ["decisions with |ln u - ln A| below 1e-9(1+|ln A|) + 1e-12*|E|/kT are counted as boundary-indeterminate",
                   "multi-particle composite exchanges (|dN|>1) are outside the stated formulas and not judged",
                   "the strain of the isotension work term is taken from the value the criteria publishes (the statement does not define it)"]

    def generate(self, rnd, tier, index):
        if index == 0:
            # pinned history for the open finding KF-C02-1 (a consequence of KF-C05 that only shows on a marginal
            # decision): every run of the check exhibits it, whatever VERIF_SEED is
            import json
            import os
            with open(os.path.join(os.path.dirname(__file__), "pinned", "c02_label_merge.json")) as f:
                return json.load(f)
        sc = gen_history(rnd, self.flavor)
        ntr = sum(s["n"] for s in sc["steps"]) * sc["params"]["max_cycles"]
        if sc["driver"] in ("Isobaric", "Isotension") and rnd.random() < 0.15:
            # the box is rescaled after the simulation object was built and before it is run: the old volume of the
            # first cell trials is the volume the atoms have THEN
            sc.setdefault("edits", []).append({"before_segment": 0, "cell_scale": gen.rfloat(rnd, 0.8, 1.25, 3)})
        if rnd.random() < 0.6:
            sc["u_tape"] = {str(t): rnd.choice(["zero", "below", "above", "max"]) for t in range(ntr) if rnd.random() < 0.4}
        return sc

    def nontrivial(self, packed):
        return packed["stats"].get("probe.decisions_judged", 0) > 0

    def shrink_candidates(self, sc, signature, violation):
        import copy
        if sc.get("u_tape"):
            c = copy.deepcopy(sc)
            del c["u_tape"]
            yield c
        yield from super().shrink_candidates(sc, signature, violation)

    def budget(self, tier):
        return {"runs": 6000, "wall_s": 170} if tier == "quick" else {"runs": 600000, "wall_s": 1500}


CAMPAIGN = C02()
