"""C05 - grand-canonical bookkeeping tracks the real system.

Reference model keyed by a harness-owned per-atom uid: uid -> label for every
label-bearing (sub)move, uid -> particle, and the particle count.  Updated from the
accepted history only; compared with the code's labels / counter after every trial.
"""
from __future__ import annotations

import numpy as np

from campaigns.history import HistoryCampaign
from simkit.world import Monitor


class C05Monitor(Monitor):
    prop = "C05"

    def on_build(self, w):
        atoms = w.atoms
        uid = atoms.arrays["uid"]
        self.next_uid = int(uid.max()) + 1 if len(uid) else 1
        self.model = {}  # path -> {uid: label}
        self.defaults = {}
        for p, m in w.label_moves():
            if len(m.labels) != len(atoms):
                raise RuntimeError("generator produced labels of wrong length")
            self.model[p] = {int(u): int(l) for u, l in zip(uid, m.labels)}
            self.defaults[p] = m.default_label
        # particles as the exchange move sees them
        ex = next((m for p, m in w.label_moves() if type(m).__name__ == "ExchangeMove"), None)
        self.particle = {}
        if ex is not None:
            for u, l in zip(uid, ex.labels):
                if l >= 0:
                    self.particle[int(u)] = ("init", int(l))
        self.N = int(w.mc.number_of_exchange_particles)
        self.N0 = self.N
        self.accepted_ins = 0
        self.accepted_del = 0
        self.ksize = len(w.template)
        self.ninserted = 0

    def _ctx(self, w, name, what):
        return f"{what}|driver={w.sc['driver']}|move={w.move_cat(name)}"

    def on_trial(self, w, name, verdict, pre, post):
        atoms = w.atoms
        kind = w.move_kind(name)
        uid_pre = [int(u) for u in pre["uid"]]
        uid_post = atoms.arrays["uid"]
        new_rows = [i for i, u in enumerate(uid_post) if u == 0]
        gone = [u for u in uid_pre if u not in set(int(x) for x in uid_post)]
        w.result.cover.add(f"{kind}|{verdict}|new={len(new_rows) // max(1, self.ksize)}|gone={len(gone)}|"
                           f"default={'y' if any(d is not None for d in self.defaults.values()) else 'n'}")
        if verdict is not True:
            # nothing may have changed (C03 judges the atoms; here: the bookkeeping)
            if new_rows or gone:
                return  # atom-level damage is C03's to report
        # -- update the model from the accepted history
        new_particles = []  # list of lists of row indices
        if verdict is True and new_rows:
            k = self.ksize
            # insertion appends whole particles at the end, template-sized blocks in order
            if len(new_rows) % k != 0 or new_rows != list(range(len(atoms) - len(new_rows), len(atoms))):
                self.violate(w, "insertion_shape", self._ctx(w, name, "rows"),
                             f"new rows {new_rows} for a template of {k} atoms")
                return
            for b in range(0, len(new_rows), k):
                rows = new_rows[b:b + k]
                self.ninserted += 1
                pid = ("ins", self.ninserted)
                for r in rows:
                    uid_post[r] = self.next_uid
                    self.particle[self.next_uid] = pid
                    self.next_uid += 1
                new_particles.append(rows)
            self.N += len(new_particles)
            self.accepted_ins += len(new_particles)
            w.result.count("probe.accepted_insertions", len(new_particles))
        if verdict is True and gone:
            pids = {self.particle.get(u) for u in gone}
            if None in pids:
                self.violate(w, "deleted_non_exchangeable_atom", self._ctx(w, name, "rows"),
                             f"atoms {gone} were deleted but are not part of an exchangeable particle")
                pids.discard(None)
            for pid in pids:
                members = [u for u, q in self.particle.items() if q == pid]
                if not set(members) <= set(gone):
                    self.violate(w, "particle_partially_deleted", self._ctx(w, name, "rows"),
                                 f"particle {pid} has atoms {members}, only {sorted(set(members) & set(gone))} deleted")
                for u in members:
                    self.particle.pop(u, None)
            self.N -= len(pids)
            self.accepted_del += len(pids)
            w.result.count("probe.accepted_deletions", len(pids))
            for p in self.model:
                for u in gone:
                    self.model[p].pop(u, None)
        # -- compare: particle counter
        Ncode = int(w.mc.number_of_exchange_particles)
        if Ncode != self.N:
            self.violate(w, "particle_count_wrong", self._ctx(w, name, f"verdict={verdict}"),
                         f"number_of_exchange_particles={Ncode}, initial {self.N0} + {self.accepted_ins} accepted "
                         f"insertions - {self.accepted_del} accepted deletions = {self.N}")
            self.N = Ncode  # resynchronise so that one slip is reported once
        # -- compare: labels of every label-bearing (sub)move
        uids = [int(u) for u in uid_post]
        for p, m in w.label_moves():
            labels = np.asarray(m.labels)
            what = f"labels_of={type(m).__name__}"
            if len(labels) != len(atoms):
                self.violate(w, "labels_length_mismatch", self._ctx(w, name, what),
                             f"{p}: {len(labels)} labels for {len(atoms)} atoms (labels {labels.tolist()})")
                # resynchronise
                self.model[p] = {u: int(l) for u, l in zip(uids, labels[: len(uids)])}
                continue
            mdl = self.model[p]
            for i, u in enumerate(uids):
                if u in mdl and int(labels[i]) != mdl[u]:
                    self.violate(w, "surviving_atom_label_changed", self._ctx(w, name, what),
                                 f"{p}: atom uid {u} had label {mdl[u]}, now {int(labels[i])}")
                    mdl[u] = int(labels[i])
            # the label the USER configured for new atoms (the move object may have lost it on the way into the table)
            spec = w.spec_of_path(p)
            default = spec.get("default_label") if spec is not None and spec.get("type") in ("disp", "exch") else m.default_label
            others = {int(labels[i]) for i, u in enumerate(uids) if u in mdl}
            seen_new = set()
            for rows in new_particles:
                ls = {int(labels[r]) for r in rows}
                if len(ls) != 1:
                    self.violate(w, "new_particle_labels_not_shared", self._ctx(w, name, what),
                                 f"{p}: atoms {rows} of one inserted particle have labels {sorted(ls)}")
                lab = int(labels[rows[0]])
                if default is not None:
                    if ls != {int(default)}:
                        self.violate(w, "default_label_not_honoured", self._ctx(w, name, what + f"|default={default}"),
                                     f"{p}: default_label={default} but new atoms got {sorted(ls)}")
                else:
                    if lab < 0:
                        self.violate(w, "new_particle_label_negative", self._ctx(w, name, what),
                                     f"{p}: new particle got label {lab}")
                    elif lab in others or lab in seen_new:
                        self.violate(w, "distinct_particles_share_label", self._ctx(w, name, what),
                                     f"{p}: new particle label {lab} is already used (existing {sorted(others)}, "
                                     f"same call {sorted(seen_new)})")
                        # follow the code from here on: the particles are now one deletable group
                        if type(m).__name__ == "ExchangeMove":
                            owner = next((self.particle[u] for i, u in enumerate(uids)
                                          if int(labels[i]) == lab and u in self.particle and i not in rows), None)
                            if owner is not None:
                                for r in rows:
                                    self.particle[uids[r]] = owner
                    seen_new.add(lab)
                for r in rows:
                    mdl[uids[r]] = int(labels[r])
            # unique_labels must be the sorted non-negative labels (documented attribute)
            ul = np.unique(labels[labels >= 0]) if len(labels) else np.array([], dtype=int)
            if not np.array_equal(np.asarray(m.unique_labels), ul):
                self.violate(w, "unique_labels_stale", self._ctx(w, name, what),
                             f"{p}: unique_labels {np.asarray(m.unique_labels).tolist()} vs labels {labels.tolist()}")
        # -- template untouched
        if post.get("template") != w.template_snapshot:
            self.violate(w, "template_modified", self._ctx(w, name, "template"), "exchange template arrays changed")
            w.template_snapshot = post.get("template")


class C05(HistoryCampaign):
    prop = "C05"
    monitor_cls = C05Monitor
    flavor = {
        "drivers": ["GrandCanonical"],
        "calc_styles": ["caching", "stateless"],
        "scales": ["moderate", "ideal"], "constraints": 0.2, "arrays": 0.4, "composites": 0.45, "extended": 0.25,
        "p_force": [0.3, 0.6, 0.9], "p_veto": [0.0, 0.1, 0.3], "preselect": 0.25, "steps_max": 12,
        "default_label": 0.3, "max_atoms": 8, "wrap_exch": 0.2, "via_copy": 0.3,
    }
    rule = ("one evaluation = one generated grand-canonical deployment (atomic / molecular template, initial "
            "labelings with gaps / shuffles / negatives, several label-bearing moves, composites with + and *, "
            "repeated move objects, default labels) stepped trial by trial against the uid-keyed reference "
            "model; distinct = (move kind, verdict, particles inserted, atoms deleted, default label configured) "
            "tuples; non-trivial = at least one trial executed")
    assumptions = ["a harness-owned integer per-atom array `uid` rides on the atoms to track identity (the property allows any per-atom array)",
                   "inserted particles are template-sized blocks appended at the end (checked, reported as insertion_shape otherwise)"]

    def budget(self, tier):
        return {"runs": 6000, "wall_s": 170} if tier == "quick" else {"runs": 600000, "wall_s": 1500}


CAMPAIGN = C05()
