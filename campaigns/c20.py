"""C20 - drivers use custom moves and criteria only through the documented protocol.

Bare classes (no quansino base) implementing exactly the protocol members; every
attribute access from outside the object is logged.  Added with an explicit criteria to
every driver, alone and next to shipped moves, under accept/reject histories.
"""
from __future__ import annotations

import numpy as np

from campaigns.history import HistoryCampaign, gen_history
from simkit import gen
from simkit.world import Monitor

MOVE_PROTO = {"__call__", "on_atoms_changed", "on_cell_changed", "to_dict", "from_dict"}
CRIT_PROTO = {"evaluate", "to_dict", "from_dict"}

RESULTS = [True, False, 1, 0, "x", "", None, [0], [], 2.5, 0.0]


class C20Monitor(Monitor):
    prop = "C20"

    def on_build(self, w):
        self.cursor = {p: 0 for p in w.bare_logs}
        self.bare_moves = {p: o for p, o in w.bare_objs.items() if not p.endswith("#criteria")}
        self._scan(w, "setup")

    def _scan(self, w, phase, name=None):
        """Look at new log entries of every bare object; returns {path: [new entries]}"""
        new = {}
        for p, log in w.bare_logs.items():
            ent = log[self.cursor[p]:]
            self.cursor[p] = len(log)
            new[p] = ent
            proto = CRIT_PROTO if p.endswith("#criteria") else MOVE_PROTO
            for e in ent:
                if e[0] == "get" and e[1] not in proto:
                    self.violate(w, "non_protocol_attribute_read",
                                 f"object={'criteria' if p.endswith('#criteria') else 'move'}|attr={e[1]}|driver={w.sc['driver']}|phase={phase}",
                                 f"the driver read attribute {e[1]!r} of the user object {p}")
                if e[0] == "set":
                    self.violate(w, "attribute_written",
                                 f"object={'criteria' if p.endswith('#criteria') else 'move'}|attr={e[1]}|driver={w.sc['driver']}|phase={phase}",
                                 f"the driver wrote attribute {e[1]!r} of the user object {p}")
        return new

    def before_trial(self, w, name):
        self._scan(w, "between_trials")

    def on_trial(self, w, name, verdict, pre, post):
        new = self._scan(w, "trial", name)
        drv = w.sc["driver"]
        is_bare = name in self.bare_moves
        raw = getattr(w, "raw_verdict", verdict)
        w.result.cover.add(f"{drv}|{'bare' if is_bare else w.move_cat(name)}|{verdict}|"
                           f"{'natoms' if pre['n'] != post['n'] else ''}{'cell' if not np.array_equal(pre['cellarr'], post['cellarr']) else ''}")
        # a user move that is a member of a hand-built composite entry is executed once per trial of that entry,
        # wherever it stands among its siblings and whatever they return
        for p, ent in new.items():
            if p.startswith(name + ".") and not p.endswith("#criteria"):
                ncalls = sum(1 for e in ent if e[0] == "call" and e[1] == "__call__")
                if ncalls != 1:
                    self.violate(w, "bare_member_of_composite_not_executed_once", f"driver={drv}|calls={ncalls}",
                                 f"{p} (member of the composite entry {name}) was called {ncalls} times in one trial")
                w.result.count("probe.composite_members_checked")
        if is_bare:
            calls = [e for e in new[name] if e[0] == "call" and e[1] == "__call__"]
            if len(calls) != 1:
                self.violate(w, "bare_move_not_executed_once", f"driver={drv}", f"{len(calls)} calls in one trial")
            else:
                res = calls[0][2]
                truthy = bool(eval(res))  # noqa: S307 - repr of our own literal
                crit_calls = [e for e in new.get(name + "#criteria", []) if e[0] == "call" and e[1] == "evaluate"]
                if truthy:
                    if len(crit_calls) != 1:
                        self.violate(w, "truthy_result_not_sent_to_criteria", f"driver={drv}|result={type(eval(res)).__name__}",
                                     f"move returned {res}; criteria called {len(crit_calls)} times")  # noqa: S307
                    elif bool(raw) != bool(eval(crit_calls[0][2])):  # noqa: S307
                        self.violate(w, "criteria_verdict_not_recorded", f"driver={drv}",
                                     f"criteria returned {crit_calls[0][2]}, history says {raw!r}")
                    elif not eval(crit_calls[0][2]) and drv != "MonteCarlo":  # noqa: S307
                        # a falsy verdict of whatever type is a rejection: the trial must be undone
                        # (the base driver's context remembers nothing to undo with)
                        if pre["n"] != post["n"] or not np.array_equal(pre["positions"], post["positions"]) or not np.array_equal(pre["cellarr"], post["cellarr"]):
                            self.violate(w, "rejected_by_user_criteria_but_not_undone", f"driver={drv}|verdict_type={type(eval(crit_calls[0][2])).__name__}",  # noqa: S307
                                         f"criteria returned {crit_calls[0][2]} (falsy) but the trial configuration is still on the atoms")
                        w.result.count("probe.falsy_verdicts_checked")
                else:
                    if crit_calls or verdict is not None:
                        self.violate(w, "falsy_result_not_recorded_as_not_attempted",
                                     f"driver={drv}|result={type(eval(res)).__name__}",  # noqa: S307
                                     f"move returned {res}; criteria calls {len(crit_calls)}; history {raw!r}")
                w.result.count("probe.bare_trials")
        # notifications to every bare move
        count_changed = pre["n"] != post["n"] or (pre["uid"] is not None and not np.array_equal(pre["uid"], post["uid"]))
        # (numerically: a masked deformation that multiplies by the identity turns -0.0 into 0.0, which is no change)
        cell_changed = not np.array_equal(pre["cellarr"], post["cellarr"])
        for p in self.bare_moves:
            notes_atoms = [e for e in new[p] if e[0] == "call" and e[1] == "on_atoms_changed"]
            notes_cell = [e for e in new[p] if e[0] == "call" and e[1] == "on_cell_changed"]
            if verdict is True and count_changed and drv == "GrandCanonical":
                uid_pre = [int(u) for u in pre["uid"]]
                uid_post = [int(u) for u in w.atoms.arrays["uid"]]
                removed = sorted(i for i, u in enumerate(uid_pre) if u not in set(uid_post))
                added = sorted(i for i, u in enumerate(uid_post) if u == 0)
                if len(notes_atoms) != 1:
                    self.violate(w, "atom_count_change_not_notified", f"driver={drv}|notified={len(notes_atoms)}",
                                 f"accepted {w.move_kind(name)} changed the atoms; {p} got {len(notes_atoms)} notifications")
                else:
                    got_a, got_r = sorted(notes_atoms[0][2]), sorted(notes_atoms[0][3])
                    if got_a != added or got_r != removed:
                        self.violate(w, "atom_count_notification_wrong_indices", f"driver={drv}",
                                     f"notified added={got_a} removed={got_r}; actual added={added} removed={removed}")
                w.result.count("probe.atom_notifications_checked")
            elif any(e[2] or e[3] for e in notes_atoms) and (verdict is not True or not count_changed):
                # (an empty notification - no indices - is harmless and not judged)
                self.violate(w, "spurious_atom_count_notification", f"driver={drv}|verdict={verdict}",
                             f"{p} notified {notes_atoms} although no accepted change of atom count happened")
            if verdict is True and cell_changed:
                if len(notes_cell) < 1:
                    self.violate(w, "cell_change_not_notified", f"driver={drv}",
                                 f"accepted {w.move_kind(name)} changed the cell; {p} got no on_cell_changed")
                elif not np.allclose(np.array(notes_cell[-1][2]), w.atoms.cell.array, rtol=0, atol=0):
                    self.violate(w, "cell_notification_wrong_cell", f"driver={drv}", "notified cell != current cell")
                w.result.count("probe.cell_notifications_checked")
            elif notes_cell and verdict is not True:
                self.violate(w, "spurious_cell_notification", f"driver={drv}|verdict={verdict}", f"{p}: {notes_cell}")
        # new atoms get their uid (shared convention with C05)
        if "uid" in w.atoms.arrays and verdict is True:
            u = w.atoms.arrays["uid"]
            nxt = int(u.max()) + 1 if len(u) else 1
            for i in range(len(u)):
                if u[i] == 0:
                    u[i] = nxt
                    nxt += 1

    def on_exception(self, w, info):
        # the driver tripping over a user object (e.g. hashing or comparing it) is this property's business
        if "Bare" in info["text"].split("\n")[-2] or "unhashable" in info["text"]:
            self.violate(w, "driver_fails_on_user_object", f"type={info['type']}|where={info['where']}|driver={w.sc['driver']}", info["text"])
            return True
        return super().on_exception(w, info)

    def on_end(self, w):
        self._scan(w, "between_trials")
        try:
            d = w.mc.to_dict()
        except Exception as e:  # noqa: BLE001
            from simkit.core import classify_exception

            info = classify_exception(e)
            self._scan(w, "serialization")
            self.violate(w, "serialization_fails_with_user_objects", f"type={info['type']}|where={info['where']}|driver={w.sc['driver']}",
                         "mc.to_dict() raised with protocol-only user objects (which are free to hold resources that cannot be "
                         "copied) in the table:\n" + info["text"])
            return
        self._scan(w, "serialization")
        for p, obj in w.bare_objs.items():
            if p.endswith("#criteria"):
                got = d["moves"].get(p[:-9], {}).get("kwargs", {}).get("criteria")
                want = {"name": "BareCriteria", "kwargs": {"marker": 54321}}
            else:
                parts = p.split(".")
                got = d["moves"].get(parts[0], {}).get("kwargs", {}).get("move")
                for idx in parts[1:]:  # bare move nested in a hand-built CompositeMove
                    try:
                        got = got["kwargs"]["moves"][int(idx)]
                    except (KeyError, IndexError, TypeError, ValueError):
                        got = None
                        break
                want = {"name": "BareMove", "kwargs": {"marker": 12345}}
            if got != want:
                self.violate(w, "not_serialized_with_simulation", f"object={'criteria' if p.endswith('#criteria') else 'move'}|driver={w.sc['driver']}",
                             f"mc.to_dict() holds {got!r} for {p}")
        w.result.count("probe.serializations_checked")
        self._restore(w, d)

    def _restore(self, w, d):
        """The dictionary the package wrote is read back: the user has registered his classes under the names his
        to_dict() reports (register_class, replacing whatever an earlier definition left there), so the simulation must
        be rebuilt with instances of exactly those classes."""
        moves = {p: o for p, o in w.bare_objs.items() if not p.endswith("#criteria") and "." not in p}
        crits = {p[:-9]: o for p, o in w.bare_objs.items() if p.endswith("#criteria")}
        mcls = {type(o) for o in moves.values()}
        ccls = {type(o) for o in crits.values()}
        if len(mcls) > 1 or len(ccls) > 1 or not hasattr(type(w.mc), "from_dict"):
            return  # two different user classes reporting one name: nothing to register unambiguously
        from quansino.registry import register_class

        for cls, nm in [(c, "BareMove") for c in mcls] + [(c, "BareCriteria") for c in ccls]:
            register_class(cls, nm)
        try:
            mc2 = type(w.mc).from_dict(d)
        except Exception as e:  # noqa: BLE001
            from simkit.core import classify_exception

            info = classify_exception(e)
            self.violate(w, "restore_fails_with_user_objects", f"type={info['type']}|where={info['where']}|driver={w.sc['driver']}",
                         "from_dict(to_dict()) raised with registered protocol-only user classes in the table:\n" + info["text"])
            return
        for name, obj in list(moves.items()) + [(n, o) for n, o in crits.items()]:
            st = mc2.moves.get(name)
            if st is None:
                continue
            got = st.move if name in moves and obj is moves.get(name) else st.criteria
            if type(got) is not type(obj):
                self.violate(w, "restored_with_another_class", f"object={'move' if obj is moves.get(name) else 'criteria'}|driver={w.sc['driver']}",
                             f"entry {name}: the user's registered class is {type(obj).__name__} (id {id(type(obj))}), the rebuilt "
                             f"simulation holds a {type(got).__name__} (id {id(type(got))})")
        mc2.close()
        w.result.count("probe.restores_checked")


class C20(HistoryCampaign):
    prop = "C20"
    monitor_cls = C20Monitor
    flavor = {
        "drivers": ["Canonical", "HamiltonianCanonical", "Isobaric", "Isotension", "GrandCanonical", "GrandCanonical"],
        "calc_styles": ["caching", "stateless"],
        "scales": ["moderate"], "constraints": 0.0, "arrays": 0.2, "composites": 0.2, "extended": 0.0,
        "p_force": [0.3, 0.6, 0.9], "p_veto": [0.0, 0.1], "preselect": 0.0, "steps_max": 10, "wrap_exch": 0.35,
    }
    rule = ("one evaluation = one generated deployment holding bare protocol-only moves and criteria (results drawn "
            "from True/False/1/0/'x'/''/None/[0]/[]/2.5/0.0) alone or next to shipped moves in each of the six Monte "
            "Carlo drivers; attribute-access log, criteria routing, serialization and change notifications are checked "
            "per trial; distinct = (driver, bare or shipped move category, verdict, what the trial changed) tuples; "
            "non-trivial = at least one bare trial executed")
    assumptions = ["the bare objects' own internals are invisible to the log (only accesses from outside are recorded)"]

    def on_build_exception(self, sc, info, res):
        if "add_move" in info["text"] and any(e["move"]["type"] == "bare" or e.get("criteria") == "bare" for e in sc["moves"]):
            from simkit.core import Violation

            res.violations.append(Violation("C20", "driver_refuses_user_object",
                                            f"type={info['type']}|where={info['where']}|driver={sc['driver']}", info["text"], "build"))
            return True
        return False

    def generate(self, rnd, tier, index):
        if rnd.random() < 0.2:
            cell = gen.gen_cell(rnd)
            n = rnd.randint(1, 5)
            sc = {"driver": "MonteCarlo", "seed": rnd.randint(1, 2**31 - 1),
                  "atoms": gen.gen_atoms(rnd, n, cell, arrays=0.2, uid=True),
                  "calc": {"style": "caching", "pot": gen.gen_pot(rnd, cell)},
                  "params": {"max_cycles": rnd.randint(1, 3)}, "moves": [],
                  "steps": [{"n": rnd.randint(1, 8)}], "faults": {"verdicts": {}, "veto": {}}}
        else:
            sc = gen_history(rnd, self.flavor)
            if rnd.random() < 0.3:
                sc["moves"] = []  # bare moves alone
        drv = sc["driver"]
        equality = rnd.choice(["plain", "plain", "plain", "eq_unhashable", "eq_hash"])
        truths = [None, None, None, "len0", "boolfalse"]
        for j in range(rnd.randint(1, 2)):
            kinds = ["disp", "noop"] + (["cell", "cell"] if drv in ("Isobaric", "Isotension") else [])
            sc["moves"].append({"name": f"bare{j}", "criteria": "bare", "criteria_truth": rnd.choice(truths),
                                "verdicts": [rnd.choice([True, True, False, None, 0, 1, "", "x"]) for _ in range(rnd.randint(1, 6))],
                                "probability": gen.rfloat(rnd, 0.5, 3.0, 2),
                                "move": {"type": "bare", "kind": rnd.choice(kinds), "equality": equality, "truth": rnd.choice(truths),
                                         "step": gen.logu(rnd, 0.01, 0.2) if rnd.random() < 0.6 else gen.logu(rnd, 1e-10, 1e-3),
                                         "results": [rnd.choice(RESULTS) for _ in range(rnd.randint(1, 6))]}})
        if drv in ("Isobaric", "Isotension") and rnd.random() < 0.4:
            # every accepted change of the cell counts, however small
            for e in sc["moves"]:
                stack = [e["move"]]
                while stack:
                    x = stack.pop()
                    if x["type"] == "cell" and x.get("op"):
                        x["op"]["max"] = gen.logu(rnd, 1e-10, 1e-4)
                    stack += x.get("items", []) + ([x["item"]] if "item" in x else [])
        if rnd.random() < 0.3 and drv != "MonteCarlo" and len(sc["moves"]) > 1:
            # a shipped move judged by a bare criteria
            for e in sc["moves"]:
                if e["move"]["type"] in ("disp", "cell") and "criteria" not in e:
                    e["criteria"] = "bare"
                    e["criteria_truth"] = rnd.choice(truths)
                    e["verdicts"] = [rnd.random() < 0.5 for _ in range(4)]
                    break
        if rnd.random() < 0.3 and drv != "MonteCarlo":
            # a bare move inside a hand-built CompositeMove next to a shipped displacement move
            n = len(sc["atoms"]["numbers"])
            if n:
                sc["moves"].append({"name": "wrapped", "criteria": {"Canonical": "Canonical", "HamiltonianCanonical": "Canonical",
                                                                     "Isobaric": "Isobaric", "Isotension": "Isotension",
                                                                     "GrandCanonical": "GrandCanonical"}[drv],
                                    "move": {"type": "wrap", "items": self._wrapped_items(rnd, sc)}})
        return sc

    def _wrapped_items(self, rnd, sc):
        bare = {"type": "bare", "kind": "noop", "results": [rnd.choice([True, False, 1, 0])]}
        disp = {"type": "disp", "labels": self._labels_for(sc), "op": {"type": "Ball", "step": 0.1}}
        items = [bare, disp] if rnd.random() < 0.5 else [disp, bare]  # the user move first, or after a shipped one
        if rnd.random() < 0.3:
            items.append({"type": "bare", "kind": "noop", "results": [rnd.choice([True, False])]})
        return items

    @staticmethod
    def _labels_for(sc):
        n = len(sc["atoms"]["numbers"])
        if sc["driver"] == "GrandCanonical":
            for e in sc["moves"]:
                m = e["move"]
                stack = [m]
                while stack:
                    x = stack.pop()
                    if x["type"] == "exch":
                        return list(x["labels"])
                    stack += x.get("items", []) + ([x["item"]] if "item" in x else [])
        return list(range(n))

    def nontrivial(self, packed):
        return packed["stats"].get("probe.bare_trials", 0) > 0

    def budget(self, tier):
        return {"runs": 6000, "wall_s": 170} if tier == "quick" else {"runs": 600000, "wall_s": 1500}


CAMPAIGN = C20()
