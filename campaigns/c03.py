"""C03 - a rejected or failed trial leaves the system exactly as it was.

Oracle 1: bitwise pre/post snapshot equality on every trial whose verdict is False/None.
Oracle 2: at step boundaries that follow such trials a *twin* deployment is built from
public state only (atoms, labels, N, step counter, generator state) and both continue
under the same tapes: identical per-trial records, otherwise something leaked.
"""
from __future__ import annotations

import copy

import numpy as np

from campaigns.history import HistoryCampaign
from simkit import gen
from simkit.core import Violation
from simkit.world import Monitor, World, make_world


def snapshot_diff(pre: dict, post: dict) -> list[tuple[str, str]]:
    """-> list of (component, detail)"""
    out = []
    if pre["n"] != post["n"]:
        out.append(("natoms", f"{pre['n']} -> {post['n']}"))
    a, b = pre["arrays"], post["arrays"]
    for name in sorted(set(a) | set(b)):
        x, y = a.get(name), b.get(name)
        if x is None or y is None:
            present = x if x is not None else y
            # a missing momenta array equals an all-zero one (ASE's own reading; reverting a
            # Hamiltonian trial writes the remembered - possibly zero - momenta back)
            if name != "momenta" or any(present[2]):
                out.append((f"arrays:{name}:{'appeared' if x is None else 'disappeared'}",
                            "the set of per-atom arrays changed"))
            continue
        if x != y:
            if x[0] != y[0]:
                out.append((f"arrays:{name}:dtype", f"{x[0]} -> {y[0]}"))
            elif x[1] != y[1]:
                out.append((f"arrays:{name}:shape", f"{x[1]} -> {y[1]}"))
            else:
                out.append((f"arrays:{name}", "bytes differ"))
    if not np.array_equal(pre["cellarr"], post["cellarr"]):  # (numerically: -0.0 and 0.0 are the same cell)
        out.append(("cell", f"{pre['cellarr'].tolist()} -> {post['cellarr'].tolist()}"))
    if pre["pbc"] != post["pbc"]:
        out.append(("pbc", ""))
    if pre["constraints"] != post["constraints"]:
        out.append(("constraints", f"{pre['constraints']} -> {post['constraints']}"))
    for p in sorted(set(pre["labels"]) | set(post["labels"])):
        x, y = pre["labels"].get(p), post["labels"].get(p)
        if x is None or y is None or x.shape != y.shape or not np.array_equal(x, y):
            out.append(("labels", f"{p}: {None if x is None else x.tolist()} -> {None if y is None else y.tolist()}"))
    if pre["N"] != post["N"]:
        out.append(("particle_count", f"{pre['N']} -> {post['N']}"))
    if pre.get("template") != post.get("template"):
        out.append(("template", ""))
    return out


class TrialRecorder(Monitor):
    prop = "C03"

    def __init__(self):
        self.records = []

    def on_trial(self, w, name, verdict, pre, post):
        self.records.append(trial_record(name, verdict, post))

    def on_exception(self, w, info):
        self.records.append(("exception", info["type"], info["where"]))
        return True


FIELDS = ("move", "verdict", "positions", "cell", "natoms", "labels", "particle_count")


def trial_record(name, verdict, post):
    return (name, repr(verdict), np.array(post["positions"], copy=True), np.array(post["cellarr"], copy=True), post["n"],
            tuple((p, l.tobytes()) for p, l in sorted(post["labels"].items())), post["N"])


def same_field(a, b) -> bool:
    """Move, verdict, counts and labels must be identical; positions and cell may differ at rounding level: the twin
    evaluates every energy and force from scratch, the original may hold calculator results cached for positions one
    unit in the last place away (ASE's cache comparison has a 1e-15 tolerance; a rotation of a single atom about
    itself is such a change) - a real leak of a discarded trial is of the size of a move, not of 1e-14."""
    if isinstance(a, np.ndarray) or isinstance(b, np.ndarray):
        a, b = np.asarray(a), np.asarray(b)
        return a.shape == b.shape and bool(np.allclose(a, b, rtol=0, atol=1e-9 * max(1.0, float(np.max(np.abs(a), initial=0.0)))))
    return a == b


def twin_scenario(w: World, nsteps: int) -> dict:
    sc = copy.deepcopy(w.sc)
    atoms = w.atoms
    a = sc["atoms"]
    a["numbers"] = [int(z) for z in atoms.numbers]
    a["positions"] = atoms.positions.tolist()
    a["cell"] = np.asarray(atoms.cell.array).tolist()
    arr = {}
    for k in ("tags", "momenta", "initial_charges", "uid", "vec2", "masses"):
        if k in atoms.arrays:
            arr[k] = atoms.arrays[k].tolist()
    a["arrays"] = arr
    cons = []
    for c in atoms.constraints:
        nm = type(c).__name__
        if nm == "FixAtoms":
            cons.append({"type": "FixAtoms", "indices": [int(i) for i in c.index]})
        else:
            cons.append({"type": nm})
    a["constraints"] = cons
    # current labels of every leaf, by construction path
    cur = {p: m.labels.tolist() for p, m in w.label_moves()}

    def setlabels(ms, path):
        t = ms["type"]
        if t in ("sum", "wrap"):
            for i, it in enumerate(ms["items"]):
                setlabels(it, f"{path}.{i}")
        elif t == "mul":
            setlabels(ms["item"], f"{path}.x")
        elif "labels" in ms and path in cur:
            ms["labels"] = cur[path]

    for i, e in enumerate(sc["moves"]):
        setlabels(e["move"], e.get("name", f"m{i}"))
    if w.sc["driver"] == "GrandCanonical":
        sc["params"]["number_of_exchange_particles"] = int(w.mc.number_of_exchange_particles)
    if "omit" in sc:
        # the original relied on the default number of cycles (atoms present when IT was built)
        sc.pop("omit")
        sc["params"]["max_cycles"] = int(w.mc.max_cycles)
    for k in ("temperature", "pressure", "chemical_potential"):
        if k in sc["params"] and hasattr(type(w.mc), k):
            sc["params"][k] = float(getattr(w.mc, k))
    # on_step_end runs before irun() increments the counter for the step just finished
    sc["step_count"] = int(w.mc.step_count) + 1
    sc["rng_state"] = copy.deepcopy(w.mc._rng.bit_generator.state)
    sc["trial_offset"] = w.trial + 1 + w.trial_offset
    sc["steps"] = [{"n": nsteps}]
    return sc


class C03Monitor(Monitor):
    prop = "C03"
    TWIN_STEPS = 3
    MAX_TWINS = 3

    def __init__(self):
        self.step_nonaccepted = []
        self.twins = []  # dicts: records, cursor, after
        self.ntwins = 0
        self.own = TrialRecorder()

    def _ctx(self, w, name, verdict):
        cons = "+".join(sorted({c["type"] for c in w.sc["atoms"].get("constraints", [])})) or "none"
        return f"driver={w.sc['driver']}|move={w.move_cat(name)}|verdict={verdict}|constraints={cons}"

    def on_step_begin(self, w):
        self.step_nonaccepted = []

    def on_trial(self, w, name, verdict, pre, post):
        # feed running twins
        rec = trial_record(name, verdict, post)
        for tw in self.twins:
            if tw["done"]:
                continue
            i = tw["cursor"]
            if i >= len(tw["records"]):
                tw["done"] = True
                continue
            exp = tw["records"][i]
            tw["cursor"] += 1
            if len(exp) != len(rec) or not all(same_field(x, y) for x, y in zip(exp, rec)):
                tw["done"] = True
                field = next((FIELDS[j] for j in range(min(len(exp), len(rec))) if not same_field(exp[j], rec[j])), "length")
                if exp[0] == "exception":
                    field = "twin_raised"
                self.violate(w, "leak_into_next_move", f"driver={w.sc['driver']}|after={tw['after']}|first_diff={field}",
                             f"continuation differs from a twin rebuilt from public state at trial {i} after the "
                             f"non-accepted trial(s) {tw['after']}: twin {exp[:2]} vs original {rec[:2]}")
            else:
                w.result.count("probe.twin_trials_agree")
        if verdict is True:
            return
        w.result.count("probe.nonaccepted_trials")
        kind = w.move_kind(name)
        fired = "veto" if str(w.trial + w.trial_offset) in w.sc.get("faults", {}).get("veto", {}) else (
            "forced" if str(w.trial + w.trial_offset) in w.sc.get("faults", {}).get("verdicts", {}) else "natural")
        w.result.cover.add(f"{w.sc['driver']}|{kind}|{verdict}|{fired}|{w.sc['calc'].get('style')}|"
                           f"{'+'.join(sorted(k for k in w.sc['atoms'].get('arrays', {}) if k != 'uid'))}|"
                           f"{'+'.join(c['type'] for c in w.sc['atoms'].get('constraints', []))}")
        self.step_nonaccepted.append(f"{verdict}:{w.move_cat(name)}")
        if verdict == "missing":
            self.violate(w, "trial_not_recorded", self._ctx(w, name, verdict), "move_history has no entry for the trial")
            return
        for comp, detail in snapshot_diff(pre, post):
            self.violate(w, "state_changed_by_nonaccepted_trial", f"component={comp}|" + self._ctx(w, name, verdict),
                         f"{kind}: {detail}")

    def on_step_end(self, w):
        if not self.step_nonaccepted or self.ntwins >= self.MAX_TWINS or w.opts.get("is_twin"):
            return
        if w.sc.get("edits"):
            # after the user has edited the structure the simulation keeps the reference energy of the pre-edit structure
            # (section 14, observation); a twin would compute a fresh one - that difference is not a discarded trial's
            return
        if w.result.violations:
            return
        self.ntwins += 1
        tsc = twin_scenario(w, self.TWIN_STEPS)
        rec = TrialRecorder()
        try:
            tw = make_world(tsc, [rec], dict(w.opts, is_twin=True))
            tw.run()
        except Exception as e:  # noqa: BLE001 - twin construction failing is a harness matter
            raise
        if tw.result.harness_error:
            w.result.harness_error = tw.result.harness_error
            return
        w.result.count("probe.twins_built")
        self.twins.append({"records": rec.records, "cursor": 0, "done": False,
                           "after": ",".join(sorted(set(self.step_nonaccepted)))})


class C03(HistoryCampaign):
    prop = "C03"
    monitor_cls = C03Monitor
    flavor = {
        "drivers": ["Canonical", "Canonical", "HamiltonianCanonical", "Isobaric", "Isotension", "GrandCanonical",
                    "GrandCanonical", "GrandCanonical"],
        "calc_styles": ["caching", "caching", "stateless", "minimal"],
        "scales": ["moderate"], "constraints": 0.4, "arrays": 0.5, "composites": 0.35, "extended": 0.1,
        "p_force": [0.0, 0.4, 0.8], "p_veto": [0.0, 0.15, 0.4], "preselect": 0.2, "steps_max": 10,
        "wrap_exch": 0.08, "wrap_exch_free": 0.03,
    }
    rule = ("one evaluation = one generated deployment (driver x move table x labels x arrays x constraints x "
            "calculator style x fault tapes) stepped trial by trial; distinct = distinct (driver, move kind, "
            "verdict False/None, fault that produced it, calculator style, per-atom arrays present, constraint "
            "kinds) tuples seen on non-accepted trials; non-trivial = at least one trial executed")
    assumptions = ["forced verdicts come from a user-side criteria that wraps the real one (the Criteria protocol is open)",
                   "a missing momenta array is read as all-zero, as ASE does",
                   "calculators whose known defects belong to C04 (neighbour-list styles) are not used here"]

    def execute(self, sc):
        packed = super().execute(sc)
        if sc.get("free_exchange_composite") and (packed["violations"] or packed["foreign"]):
            # Known root cause (DESIGN.md 11, KF-C03-1): the exchange context keeps ONE flat list of added and ONE of
            # deleted indices per trial; when independently deciding exchange moves of a plain composite insert and
            # then delete (or delete twice) in the same trial the lists mix numberings.  The symptoms vary (IndexError
            # in revert_state, ValueError in reinsert_atoms, wrong atoms deleted, stale labels), so every failure of a
            # run holding such a table is reported under one signature.
            first = (packed["violations"] or [None])[0]
            detail = first["detail"] if first else str(packed["foreign"][0])
            at = first["at"] if first else ""
            packed["violations"] = [Violation("C03", "independent_exchange_moves_in_one_trial_corrupt_bookkeeping",
                                              "driver=GrandCanonical|table=plain_composite_of_exchange_moves",
                                              f"first symptom: {first['signature'] if first else packed['foreign'][0]}\n{detail}", at).to_json()]
            packed["foreign"] = []
        return packed

    def generate(self, rnd, tier, index):
        sc = super().generate(rnd, tier, index)
        n = len(sc["atoms"]["numbers"])
        total = sum(s["n"] for s in sc["steps"])
        if n and total >= 2 and sc["driver"] != "GrandCanonical" and not sc["atoms"].get("constraints") and rnd.random() < 0.12:
            # between two runs of the same simulation the user (another driver, an optimiser, his own script) moves
            # atoms; a trial of the second run that is not accepted must return to the configuration it started from
            sc["steps"] = [{"n": total // 2}, {"n": total - total // 2}]
            sc["edits"] = [{"before_segment": 1, "shift": [gen.rfloat(rnd, -0.6, 0.6, 3) for _ in range(3)],
                            "rows": sorted(rnd.sample(range(n), rnd.randint(1, n)))}]
        return sc

    def budget(self, tier):
        return {"runs": 6000, "wall_s": 170} if tier == "quick" else {"runs": 600000, "wall_s": 1500}


CAMPAIGN = C03()
