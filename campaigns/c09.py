"""C09 - move scheduling honours interval, probability and minimum count.

The driver's yield_moves *is* a scheduler and is examined like one: generated move tables
(intervals, weights incl. zero, minimum counts), cycle counts 0..8, step counters started
at random offsets, table edits and over-commit attempts.  Exact clauses are checked on
every step from the names the driver yields; the weight clause is a multinomial /
dispersion test over the free slots with a confirmation stage (DESIGN.md 3.2).
"""
from __future__ import annotations

import copy
import math
import random

import numpy as np

from simkit import gen
from simkit.core import RunResult, Violation, classify_exception, derive
from simkit.engine import Campaign
from simkit.world import make_world


def chi2_sf(x, k):
    """Survival function of chi-square with k dof (Wilson-Hilferty for large, series otherwise)."""
    from scipy.stats import chi2

    return float(chi2.sf(x, k))


def gen_table(rnd: random.Random):
    cycles = rnd.choice([0, 1, 1, 2, 3, 4, 6, 8])
    nm = rnd.randint(1, 4)
    entries = []
    free = cycles
    for i in range(nm):
        e = {"name": f"m{i}", "interval": rnd.choice([1, 1, 2, 3, 4, 5, 6]), "probability": rnd.choice([0.0, 0.5, 1.0, 1.0, 2.5, 7.0])}
        if free > 0 and rnd.random() < 0.4:
            e["minimum_count"] = rnd.randint(1, min(2, free))
            free -= e["minimum_count"]
        entries.append(e)
    # the statement's domain: weights not all zero among the due moves of any step
    entries[0]["interval"] = 1
    if entries[0]["probability"] == 0.0:
        entries[0]["probability"] = 1.0
    return cycles, entries


def build_scenario(rnd: random.Random, cycles, entries, nsteps, real=False):
    cell = gen.gen_cell(rnd, triclinic=0.0)
    n = rnd.randint(2, 4)
    driver = rnd.choice(["Canonical", "Canonical", "Isobaric", "Isotension", "GrandCanonical"]) if real else "MonteCarlo"
    sc = {"driver": driver, "seed": rnd.randint(1, 2**31 - 1),
          "atoms": gen.gen_atoms(rnd, n, cell, arrays=0.0, uid=False),
          "calc": {"style": "caching", "pot": gen.gen_pot(rnd, cell, cellterm=driver in ("Isobaric", "Isotension"))},
          "params": {"max_cycles": cycles, "temperature": 500.0}, "moves": [],
          "steps": [{"n": nsteps}], "step_count": rnd.choice([0, 0, 1, 7, 1000003])}
    if driver in ("Isobaric", "Isotension"):
        sc["params"]["pressure"] = gen.logu(rnd, 1e-4, 1e-2)
    if driver == "GrandCanonical":
        sc["exchange"] = gen.gen_atoms(rnd, 1, cell, arrays=0.0, uid=False, spread=0.1)
        sc["params"].update({"chemical_potential": gen.rfloat(rnd, -0.5, 0.5, 3), "number_of_exchange_particles": n})
    # the names the drivers give to moves handed to their constructors: a user may register (or restore) entries under
    # them with weights of his own
    default_names = rnd.random() < 0.5
    used = set()
    for e in entries:
        m = dict(e)
        if real:
            kind = rnd.choice({"Isobaric": ["disp", "cell"], "Isotension": ["disp", "cell"],
                               "GrandCanonical": ["disp", "exch"]}.get(driver, ["disp"]))
            if kind == "disp":
                m["move"] = {"type": "disp", "labels": list(range(n)), "op": {"type": "Ball", "step": 0.05}}
            elif kind == "cell":
                m["move"] = {"type": "cell", "op": {"type": "IsotropicDeformation", "max": 0.01}}
            else:
                m["move"] = {"type": "exch", "labels": list(range(n)), "op": {"type": "Translation"}, "bias": 0.5}
            dn = {"disp": "default_displacement_move", "cell": "default_cell_move", "exch": "default_exchange_move"}[kind]
            if default_names and dn not in used:
                used.add(dn)
                m["name"] = dn
        else:
            m["move"] = {"type": "bare", "kind": "noop", "results": [True]}
            m["criteria"] = "bare"
            m["verdicts"] = [True]
        sc["moves"].append(m)
    return sc


def run_schedule(sc):
    """-> list of per-step name lists (as yielded), or raises"""
    import warnings

    warnings.simplefilter("ignore")
    opts = {"simgen": False, "tape_criteria": False, "probe_check_move": False}
    w = make_world(sc, (), opts)
    mc = w.mc
    if sc.get("route") == "from_dict":
        # the table reaches the scheduler through a state dictionary (restart route): what the user configured must
        # still be honoured by the rebuilt simulation
        from simkit import calcs

        state = mc.to_dict()
        mc.close()
        mc = type(mc).from_dict(state)
        mc.atoms.calc = calcs.make_calc(sc["calc"])
    out = []
    start = mc.step_count
    # the step number is the harness's own count of steps already performed (what the simulation had in step_count
    # before the run, plus the steps consumed since), not whatever the counter reads while a step is in flight
    for i, step in enumerate(mc.irun(sum(s["n"] for s in sc["steps"]))):
        names = [str(x) for x in step]
        hist = [str(n) for n, _ in mc.move_history]
        out.append((start + i, names, hist))
    mc.close()
    return start, out


def exact_check(sc, start, sched, res: RunResult, ctxbase):
    cycles = sc["params"]["max_cycles"]
    tab = {e["name"]: e for e in sc["moves"]}
    for stepno, names, hist in sched:
        due = [n for n, e in tab.items() if stepno % e.get("interval", 1) == 0]
        at = f"step={stepno}"
        want = cycles if due else 0
        if len(names) != want:
            res.violations.append(Violation("C09", "wrong_number_of_cycles", ctxbase, f"{len(names)} trials, expected {want} (due {due})", at))
            continue
        if names != hist:
            res.violations.append(Violation("C09", "history_differs_from_schedule", ctxbase, f"yielded {names}, move_history {hist}", at))
        for n in set(names):
            if n not in due:
                res.violations.append(Violation("C09", "move_attempted_off_interval", ctxbase,
                                                f"{n} (interval {tab[n].get('interval', 1)}) attempted at step {stepno}", at))
        for n in due:
            c = names.count(n)
            mn = tab[n].get("minimum_count", 0)
            if c < mn:
                res.violations.append(Violation("C09", "minimum_count_not_met", ctxbase, f"{n}: {c} < {mn} in {names}", at))
            if tab[n].get("probability", 1.0) == 0.0 and c != mn:
                res.violations.append(Violation("C09", "zero_weight_move_chosen_freely", ctxbase, f"{n}: {c} != minimum {mn} in {names}", at))


def free_slot_stats(sc, sched):
    """Pool free-slot counts per due set: {dueset: {'M': total free draws, 'obs': {name: count}, 'p': {name: prob},
    'per_step': {name: [counts]}, 'f': free slots per step}}"""
    cycles = sc["params"]["max_cycles"]
    tab = {e["name"]: e for e in sc["moves"]}
    pools = {}
    for stepno, names, _ in sched:
        due = tuple(n for n, e in tab.items() if stepno % e.get("interval", 1) == 0)
        if not due:
            continue
        mins = {n: tab[n].get("minimum_count", 0) for n in due}
        f = cycles - sum(mins.values())
        if f <= 0:
            continue
        W = sum(tab[n].get("probability", 1.0) for n in due)
        if W <= 0:
            continue
        p = pools.setdefault(due, {"M": 0, "obs": {n: 0 for n in due}, "p": {n: tab[n].get("probability", 1.0) / W for n in due},
                                   "per_step": {n: [] for n in due}, "f": f, "steps": 0})
        p["steps"] += 1
        p["M"] += f
        for n in due:
            c = names.count(n) - mins[n]
            p["obs"][n] += c
            p["per_step"][n].append(c)
    return pools


def weight_tests(pools):
    """-> list of (kind, z_or_p, effect, detail) flags"""
    flags = []
    for due, p in pools.items():
        M = p["M"]
        if M < 400 or len(due) < 2:
            continue
        exp = {n: M * p["p"][n] for n in due}
        pos = [n for n in due if exp[n] > 0]
        if len(pos) >= 2:
            x2 = sum((p["obs"][n] - exp[n]) ** 2 / exp[n] for n in pos)
            pv = chi2_sf(x2, len(pos) - 1)
            eff = max(abs(p["obs"][n] / M - p["p"][n]) for n in due)
            flags.append(("weights", pv, eff, f"due {due}: observed {p['obs']} of {M} free slots, weights {p['p']}"))
        # dispersion: per-step counts are Binomial(f, p) when slots are filled independently
        f = p["f"]
        S = p["steps"]
        if f >= 2 and S >= 200:
            for n in pos:
                q = p["p"][n]
                if 0.05 < q < 0.95:
                    var = float(np.var(p["per_step"][n]))
                    ev = f * q * (1 - q)
                    ratio = var / ev
                    z = (ratio - 1.0) / math.sqrt(2.0 / S)
                    flags.append(("dispersion", z, abs(ratio - 1.0), f"due {due}, move {n}: variance of per-step count {var:.4f}, binomial {ev:.4f} (f={f}, S={S})"))
    return flags


class C09(Campaign):
    prop = "C09"
    level = "exploration"
    run_timeout_s = 200
    rule = ("one evaluation = one generated move table (1-4 entries, intervals 1-4, weights incl. 0, minimum counts, "
            "cycles 0-8, step-counter offsets) run for 50-2000 steps with protocol-only always-true moves (base driver) "
            "or real displacement moves (canonical driver); every step is checked against the exact clauses; free-slot "
            "counts are tested against the multinomial law of the weights (chi-square, dispersion) with a "
            "confirmation stage; table edits / over-commit attempts are part of the run; distinct = (driver, cycles, "
            "number of entries, intervals used, zero weight present, minimum counts present) tuples; non-trivial = "
            "at least one step with a due move executed")
    assumptions = ["statistical flags become violations only after the confirmation stage of DESIGN.md 3.2 (fresh seeds, 4x length, p < 1e-12 and effect floor)",
                   "tables keep at least one positive weight among the due moves of every step (the statement's domain)"]
    real_components = ["quansino MonteCarlo.yield_moves / step / add_move, MoveStorage, numpy PCG64 stream"]
    stub_components = ["protocol-only always-true moves and criteria (scheduling only)", "analytic calculator"]

    def budget(self, tier):
        return {"runs": 1500, "wall_s": 170} if tier == "quick" else {"runs": 150000, "wall_s": 1500}

    def generate(self, rnd, tier, index):
        cycles, entries = gen_table(rnd)
        real = rnd.random() < 0.25
        nsteps = rnd.choice([50, 200, 600]) if not real else rnd.choice([30, 100])
        if rnd.random() < 0.15:
            nsteps = 2000 if not real else 300
        sc = build_scenario(rnd, cycles, entries, nsteps, real)
        if real and rnd.random() < 0.5:
            sc["route"] = "from_dict"  # the configured table reaches the scheduler through to_dict / from_dict
        if rnd.random() < 0.4:
            sc["overcommit"] = {"minimum_count": cycles - sum(e.get("minimum_count", 0) for e in entries) + rnd.randint(1, 3),
                                "interval": rnd.choice([1, 1, 2, 3, 4, 5, 6])}
        return sc

    def sample_view(self, sc):
        return {"driver": sc["driver"], "cycles": sc["params"]["max_cycles"], "steps": sc["steps"], "start": sc.get("step_count", 0),
                "table": [{k: e.get(k) for k in ("name", "interval", "probability", "minimum_count")} for e in sc["moves"]],
                "overcommit": sc.get("overcommit")}

    def execute(self, sc):
        res = RunResult()
        cycles = sc["params"]["max_cycles"]
        ctx = f"driver={sc['driver']}"
        try:
            start, sched = run_schedule(sc)
        except Exception as e:  # noqa: BLE001
            info = classify_exception(e)
            if info["harness"]:
                res.harness_error = info["text"]
            elif info["owner"] == "C09" or "yield_moves" in info["text"]:
                res.violations.append(Violation("C09", "exception", f"type={info['type']}|where={info['where']}|{ctx}", info["text"]))
            else:
                res.foreign.append({k: info[k] for k in ("type", "where", "owner")} | {"phase": "run"})
            return res.pack()
        res.count("steps", len(sched))
        res.count("trials", sum(len(s[1]) for s in sched))
        res.count("evaluations")
        ivs = "".join(str(i) for i in sorted({e.get("interval", 1) for e in sc["moves"]}))
        res.cover.add(f"{sc['driver']}|c{cycles}|n{len(sc['moves'])}|iv{ivs}|z{int(any(e['probability'] == 0 for e in sc['moves']))}|"
                      f"m{int(any(e.get('minimum_count') for e in sc['moves']))}")
        if len(sched) != sum(s["n"] for s in sc["steps"]):
            res.violations.append(Violation("C09", "wrong_number_of_steps", ctx, f"{len(sched)} steps"))
        exact_check(sc, start, sched, res, ctx)
        # over-commit must be refused and leave the table unchanged
        if "overcommit" in sc:
            self._overcommit(sc, res, ctx)
        # statistics (stage 1)
        if not res.violations and not sc.get("no_stats"):
            flags = [f for f in weight_tests(free_slot_stats(sc, sched))
                     if (f[0] == "weights" and f[1] < 1e-6) or (f[0] == "dispersion" and abs(f[1]) > 4.5)]
            for kind, stat, eff, detail in flags:
                res.count(f"probe.stage1_flag_{kind}")
                conf = self._confirm(sc, kind)
                if conf:
                    res.violations.append(Violation("C09", f"free_slots_not_{'proportional_to_weights' if kind == 'weights' else 'independent'}",
                                                    ctx, conf + " | stage 1: " + detail))
                    break
            res.count("probe.weight_tests", 1)
        return res.pack()

    def _overcommit(self, sc, res, ctx):
        import warnings

        warnings.simplefilter("ignore")
        w = make_world(sc, (), {"simgen": False, "tape_criteria": False, "probe_check_move": False})
        mc = w.mc
        before = {k: (v.interval, v.probability, v.minimum_count, id(v.move)) for k, v in mc.moves.items()}
        from simkit.world import BareCriteria, BareMove

        res.count("fault.overcommit_attempt")
        try:
            mc.add_move(BareMove([True], []), criteria=BareCriteria([True], []), name="extra",
                        minimum_count=sc["overcommit"]["minimum_count"], interval=sc["overcommit"].get("interval", 1))
        except ValueError:
            after = {k: (v.interval, v.probability, v.minimum_count, id(v.move)) for k, v in mc.moves.items()}
            if after != before:
                res.violations.append(Violation("C09", "refused_add_move_changed_table", ctx, f"{before} -> {after}"))
        else:
            res.violations.append(Violation("C09", "overcommit_not_refused", ctx,
                                            f"add_move(minimum_count={sc['overcommit']['minimum_count']}) accepted with "
                                            f"{sc['params']['max_cycles']} cycles and table {self.sample_view(sc)['table']}"))
        mc.close()

    def _confirm(self, sc, kind):
        """Stage 2: 4 fresh seeds at 4x length, combined; returns text if confirmed."""
        pools_all = []
        for j in range(4):
            c = copy.deepcopy(sc)
            c["seed"] = derive(sc["seed"], "confirm", j) % (2**31 - 1) + 1
            c["steps"] = [{"n": min(8000, 4 * sum(s["n"] for s in sc["steps"]))}]
            try:
                _, sched = run_schedule(c)
            except Exception:  # noqa: BLE001
                return None
            pools_all.append(free_slot_stats(c, sched))
        # combine pools
        comb = {}
        for pools in pools_all:
            for due, p in pools.items():
                q = comb.setdefault(due, {"M": 0, "obs": {n: 0 for n in due}, "p": p["p"], "per_step": {n: [] for n in due}, "f": p["f"], "steps": 0})
                q["M"] += p["M"]
                q["steps"] += p["steps"]
                for n in due:
                    q["obs"][n] += p["obs"][n]
                    q["per_step"][n] += p["per_step"][n]
        for k, stat, eff, detail in weight_tests(comb):
            if k != kind:
                continue
            if kind == "weights" and stat < 1e-12 and eff > 0.015:
                return f"confirmed over 4 fresh seeds: p={stat:.2e}, max deviation of a frequency {eff:.4f}; {detail}"
            if kind == "dispersion" and abs(stat) > 6 and eff > 0.05:
                return f"confirmed over 4 fresh seeds: z={stat:.1f}, variance ratio off by {eff:.3f}; {detail}"
        return None

    def shrink_candidates(self, sc, signature, violation):
        n = sum(s["n"] for s in sc["steps"])
        stat = "free_slots" in signature
        if not stat and n > 1:
            at = violation.get("at", "")
            if "step=" in at:
                try:
                    k = int(at.split("step=")[1]) - sc.get("step_count", 0) + 1
                    if 0 < k < n:
                        c = copy.deepcopy(sc)
                        c["steps"] = [{"n": k}]
                        yield c
                except ValueError:
                    pass
        if "overcommit" in sc and "overcommit" not in signature and "refused" not in signature:
            c = copy.deepcopy(sc)
            del c["overcommit"]
            yield c
        if len(sc["moves"]) > 1:
            for i in range(1, len(sc["moves"])):
                c = copy.deepcopy(sc)
                del c["moves"][i]
                yield c
        if sc.get("step_count"):
            c = copy.deepcopy(sc)
            c["step_count"] = 0
            yield c

    def nontrivial(self, packed):
        return packed["stats"].get("trials", 0) > 0


CAMPAIGN = C09()
