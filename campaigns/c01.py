"""C01 - ensembles reproduce exact averages of solvable systems.

Long seeded chains of the real drivers (real moves, operations, criteria, PCG64 stream)
on analytically solvable potentials.  One run = one scenario row x R independent chains
(different derived seeds); the chain means are i.i.d., so the test statistic is a plain
Student t over chains - no autocorrelation estimate is needed.  Stage 1 flags |t| > 4.5;
a flag becomes a violation only if stage 2 (R fresh chains at 4x length) has |t| > 6,
the same sign, and a relative deviation above the effect floor (DESIGN.md 3.2).

Neutral perturbation injected by the harness: random geometric vetoes (own generator,
configuration independent) that fail whole displacement / cell trials; a failed trial
must be a no-op for the chain.
"""
from __future__ import annotations

import copy
import math
import random

import numpy as np
from ase.units import kB

from campaigns.c02 import debroglie_cubed
from simkit import gen
from simkit.core import RunResult, Violation, classify_exception, derive
from simkit.engine import Campaign
from simkit.world import World, make_world

ASE_TIME_FS = 10.1805  # one ASE time unit (Angstrom*sqrt(amu/eV)) in fs


FRAMEWORK_Z = 79  # inert framework atoms in grand-canonical rows


def tstat(values, exact):
    v = np.asarray(values, dtype=float)
    R = len(v)
    m = float(np.mean(v))
    sd = float(np.std(v, ddof=1))
    se = sd / math.sqrt(R) if sd > 0 else 1e-300
    return (m - exact) / se, m, se


def one_sided(values, exact, scale, floor):
    """Sign test for heavy-tailed deviations (a configuration that random-walks away): every chain mean on the same side
    of the exact value (probability 2^-15 under the null) and the one closest to it still beyond the effect floor."""
    d = np.asarray(values, dtype=float) - exact
    return bool((np.all(d > 0) or np.all(d < 0)) and np.min(np.abs(d)) / scale > floor)


# --------------------------------------------------------------------------------------
# scenario rows
# --------------------------------------------------------------------------------------
def row_harmonic(rnd, hmc=False, single_composite=False, large_dt=False):
    N = 1 if single_composite else rnd.randint(1, 4)
    L = gen.rfloat(rnd, 7.0, 10.0, 3)
    cell = [[L, 0, 0], [0, L, 0], [0, 0, L]]
    T = gen.logu(rnd, 100.0, 3000.0)
    kT = T * kB
    prop = "hmc" if hmc else rnd.choice(["Ball", "Box", "Sphere", "Ball+Box", "disp*2", "disp+disp", "Translation", "Ball*2"])
    if single_composite:
        # one particle (label 0) under a composite of two displacement moves: the second finds nobody left to move
        prop = rnd.choice(["disp*2", "disp+disp"])
    sigma = L / 9.0 if prop == "Translation" else gen.rfloat(rnd, 0.15, 0.5, 3)
    k = kT / sigma**2
    c = [L / 2] * 3
    g = random.Random(rnd.randint(0, 2**31))
    numbers = [rnd.choice([1, 8, 18, 29]) for _ in range(N)]
    if large_dt:
        # one species, so that EVERY particle is integrated close to the stability limit and a substantial share of
        # the trajectories is rejected (a single light atom among heavy ones leaves the acceptance high)
        numbers = [numbers[0]] * N
    pos = [[c[j] + g.gauss(0, sigma) for j in range(3)] for _ in range(N)]
    atoms = {"numbers": numbers, "positions": pos, "cell": cell, "pbc": True, "arrays": {}, "constraints": []}
    sc = {"row": "harmonic_hmc" if hmc else "harmonic", "proposal": prop,
          "driver": "HamiltonianCanonical" if hmc else "Canonical", "atoms": atoms,
          "calc": {"style": "minimal", "pot": {"k": k, "center": c}},
          "params": {"temperature": T, "max_cycles": N}}
    lab = list(range(N))

    def op(name, f=1.0):
        return {"type": name, "step": round(f * sigma, 5)} if name in ("Ball", "Box", "Sphere") else {"type": name}

    if hmc:
        from ase.data import atomic_masses
        m = min(atomic_masses[z] for z in numbers)
        period_fs = 2 * math.pi * math.sqrt(m / k) * ASE_TIME_FS
        # from nearly always accepted (period/30) to a substantial rejection rate (period/4: omega*dt = 1.57, about 60%
        # accepted): what a rejected trajectory leaves behind only matters in the latter regime (seeded C01-4)
        # (the divisor is kept off the integers: a trajectory of exactly k half periods returns the lightest particle to
        #  +- its starting point, a non-ergodic proposal that says nothing about the package)
        sc["moves"] = [{"name": "hmc", "move": {"type": "hmc", "dt": round(period_fs / (rnd.choice([3.2, 3.4, 3.7] if large_dt else [3.4, 4.37, 5.37, 8.37, 12.37, 30.37])), 5),
                                                "nsteps": rnd.randint(3, 10)}}]
        sc["params"]["max_cycles"] = 1
    elif prop in ("Ball", "Box", "Sphere", "Translation"):
        sc["moves"] = [{"name": "d", "move": {"type": "disp", "labels": lab, "op": op(prop, {"Ball": 1.6, "Box": 1.0, "Sphere": 1.3}.get(prop, 1))}}]
    elif prop == "Ball+Box":
        sc["moves"] = [{"name": "d", "move": {"type": "disp", "labels": lab, "op": {"type": "sum", "items": [op("Ball", 1.2), op("Box", 0.7)]}}}]
    elif prop == "Ball*2":
        sc["moves"] = [{"name": "d", "move": {"type": "disp", "labels": lab, "op": {"type": "mul", "item": op("Ball", 1.0), "n": 2}}}]
    elif prop == "disp*2":
        sc["moves"] = [{"name": "d", "criteria": "Canonical", "move": {"type": "mul", "n": 2, "item": {"type": "disp", "labels": lab, "op": op("Ball", 1.2)}}}]
    else:
        sc["moves"] = [{"name": "d", "criteria": "Canonical", "move": {"type": "sum", "items": [
            {"type": "disp", "labels": lab, "op": op("Ball", 1.2)}, {"type": "disp", "labels": lab, "op": op("Box", 0.8)}]}}]
    sc["observables"] = [{"name": "U", "exact": 1.5 * N * kT, "floor": 0.015},
                         {"name": "U_configuration", "exact": 1.5 * N * kT, "floor": 0.015}]
    sc["veto"] = 0.0 if hmc else rnd.choice([0.0, 0.2])
    sc["steps_unit"] = 1500 if not hmc else 600
    if prop == "Translation":
        sc["steps_unit"] = 6000
    return sc


def row_dipole(rnd):
    L = gen.rfloat(rnd, 7.0, 10.0, 3)
    cell = [[L, 0, 0], [0, L, 0], [0, 0, L]]
    T = gen.logu(rnd, 100.0, 2000.0)
    kT = T * kB
    x = gen.rfloat(rnd, 1.0, 4.0, 3)
    q = gen.rfloat(rnd, 0.3, 1.0, 3)
    d = gen.rfloat(rnd, 0.8, 1.5, 3)
    F = x * kT / (q * d)
    g = random.Random(rnd.randint(0, 2**31))
    u = np.array([g.gauss(0, 1) for _ in range(3)])
    u /= np.linalg.norm(u)
    v = np.array([g.gauss(0, 1) for _ in range(3)])
    v /= np.linalg.norm(v)
    c = np.array([L / 2] * 3)
    pos = [(c + 0.5 * d * v).tolist(), (c - 0.5 * d * v).tolist()]
    atoms = {"numbers": [rnd.choice([1, 8, 29]), rnd.choice([1, 8, 29])], "positions": pos, "cell": cell, "pbc": True,
             "arrays": {"initial_charges": [q, -q]}, "constraints": []}
    prop = rnd.choice(["Rotation", "TranslationRotation", "Rotation", "Rotation*2"])
    sc = {"row": "dipole", "proposal": prop, "driver": "Canonical", "atoms": atoms,
          "calc": {"style": "minimal", "pot": {"k": 0.0, "field": (F * u).tolist()}},
          "params": {"temperature": T, "max_cycles": 1},
          "moves": [{"name": "r", "move": {"type": "disp", "labels": [0, 0], "op": {"type": prop}}}] if prop != "Rotation*2" else
                   [{"name": "r", "criteria": "Canonical", "move": {"type": "mul", "n": 2, "item": {"type": "disp", "labels": [0, 0], "op": {"type": "Rotation"}}}}],
          "field_dir": u.tolist(), "observables": [{"name": "cos_theta", "exact": 1.0 / math.tanh(x) - 1.0 / x, "floor": 0.015},
                                                     {"name": "bond", "exact": d, "floor": 1e-6}],
          "veto": rnd.choice([0.0, 0.2]), "steps_unit": 3000, "x": x}
    return sc


def row_npt(rnd):
    N = rnd.randint(0, 5)
    cell = gen.gen_cell(rnd, triclinic=0.3, lo=7.0, hi=9.0)
    V0 = abs(np.linalg.det(np.array(cell)))
    T = gen.logu(rnd, 100.0, 3000.0)
    kT = T * kB
    P = (N + 1) * kT / V0
    atoms = gen.gen_atoms(rnd, N, cell, arrays=0.0, uid=False)
    mv = gen.rfloat(rnd, 0.08, 0.3, 3)
    moves = [{"name": "cell", "move": {"type": "cell", "op": {"type": "IsotropicDeformation", "max": mv}, "scale_atoms": True}}]
    if N and rnd.random() < 0.5:
        moves.append({"name": "d", "move": {"type": "disp", "labels": list(range(N)), "op": {"type": "Ball", "step": 0.5}}})
    sc = {"row": "npt_ideal_gas", "proposal": "IsotropicDeformation" + ("+Ball" if len(moves) > 1 else ""), "driver": "Isobaric",
          "atoms": atoms, "calc": {"style": "minimal", "pot": {"k": 0.0}},
          "params": {"temperature": T, "pressure": P, "max_cycles": len(moves)}, "moves": moves,
          "observables": [{"name": "V", "exact": (N + 1) * kT / P, "floor": 0.015},
                          {"name": "V2_over_V^2", "exact": (N + 2) / (N + 1), "floor": 0.03, "ratio": ["V2", "V", 2]}],
          "veto": rnd.choice([0.0, 0.2]), "steps_unit": 4000, "N": N}
    return sc


def row_gc(rnd, dilute=False, k=None):
    k = 1 if dilute else (k or rnd.choice([1, 2]))
    L = gen.rfloat(rnd, 7.0, 10.0, 3)
    cell = gen.gen_cell(rnd, triclinic=0.3, lo=7.0, hi=9.0) if rnd.random() < 0.4 else [[L, 0, 0], [0, L, 0], [0, 0, L]]
    V = abs(np.linalg.det(np.array(cell)))
    T = gen.logu(rnd, 200.0, 3000.0)
    kT = T * kB
    lam = gen.rfloat(rnd, 0.3, 1.3, 3) if dilute else gen.rfloat(rnd, 1.0, 8.0, 3)
    tnum = [rnd.choice([1, 8, 18]) for _ in range(k)]
    tpos = [[0.0, 0.0, 0.0]] if k == 1 else [[0.0, 0.0, 0.0], [0.0, 0.0, gen.rfloat(rnd, 0.9, 1.4, 3)]]
    from ase.data import atomic_masses
    mass = sum(atomic_masses[z] for z in tnum)
    mu = kT * math.log(lam * debroglie_cubed(mass, T) / V)
    n0 = int(round(lam))
    g = random.Random(rnd.randint(0, 2**31))
    numbers, pos, labels = [], [], []
    for p in range(n0):
        base = np.array([g.random(), g.random(), g.random()]) @ np.array(cell)
        for j in range(k):
            numbers.append(tnum[j])
            pos.append((base + np.array(tpos[j])).tolist())
            labels.append(p)
    # label layouts other than 0..n-1 in order: the largest label need not come last (seeded C01-5)
    layout = rnd.choice(["plain", "plain", "reversed", "framework_after", "framework_after"])
    if layout == "reversed":
        labels = [n0 - 1 - x for x in labels]
    elif layout == "framework_after":
        # two inert atoms (gold, never exchanged or displaced: label -1) listed AFTER the gas particles
        for _ in range(2):
            numbers.append(FRAMEWORK_Z)
            pos.append((np.array([g.random(), g.random(), g.random()]) @ np.array(cell)).tolist())
            labels.append(-1)
    atoms = {"numbers": numbers, "positions": pos, "cell": cell, "pbc": True, "arrays": {}, "constraints": []}
    moves = [{"name": "x", "move": {"type": "exch", "labels": labels, "op": {"type": "Translation" if k == 1 else "TranslationRotation"},
                                    "bias": 0.5}}]
    if rnd.random() < 0.4:
        moves.append({"name": "d", "move": {"type": "disp", "labels": list(labels), "op": {"type": "Ball", "step": 0.7}}})
    obs = [{"name": "N", "exact": lam, "floor": 0.015},
           {"name": "varN_over_N", "exact": 1.0, "floor": 0.05, "ratio": ["N2", "N", "fano"]},
           {"name": "frac_x", "exact": 0.5, "floor": 0.02, "ratio": ["sum_fx", "N", 1]},
           {"name": "frac_y2", "exact": 1.0 / 3.0, "floor": 0.03, "ratio": ["sum_fy2", "N", 1]},
           {"name": "frac_z", "exact": 0.5, "floor": 0.02, "ratio": ["sum_fz", "N", 1]}]
    if dilute:
        # the chain visits the empty box often: P(N=0) = exp(-lambda) is sensitive to the N=0 boundary
        obs.append({"name": "P0", "exact": math.exp(-lam), "floor": 0.03})
    if k == 2:
        obs += [{"name": "cos2_theta", "exact": 1.0 / 3.0, "floor": 0.03, "ratio": ["sum_c2", "N", 1]},
                {"name": "cos_theta", "exact": 0.0, "floor": 0.03, "ratio": ["sum_c", "N", 1], "absolute": True},
                {"name": "cos_2phi", "exact": 0.0, "floor": 0.04, "ratio": ["sum_c2phi", "N", 1], "absolute": True}]
    sc = {"row": "gc_ideal_gas", "proposal": ("dilute_atom" if dilute else "atom" if k == 1 else "diatomic") + ("+Ball" if len(moves) > 1 else "")
          + ("" if layout == "plain" else "/" + layout),
          "driver": "GrandCanonical", "atoms": atoms,
          "exchange": {"numbers": tnum, "positions": tpos, "cell": cell, "pbc": True, "arrays": {}},
          "calc": {"style": "minimal", "pot": {"k": 0.0}},
          "params": {"temperature": T, "chemical_potential": mu, "number_of_exchange_particles": n0, "max_cycles": len(moves) * 2},
          "moves": moves, "observables": obs, "veto": 0.0, "steps_unit": 3000, "lambda": lam, "k": k}
    return sc


ROWS = [("harmonic", lambda r: row_harmonic(r)), ("harmonic_hmc_large_dt", lambda r: row_harmonic(r, True, large_dt=True)),
        ("harmonic_hmc", lambda r: row_harmonic(r, True)),
        ("harmonic_single_composite", lambda r: row_harmonic(r, False, True)),
        ("dipole", row_dipole), ("dipole", row_dipole), ("npt", row_npt), ("npt", row_npt),
        ("gc_atom", lambda r: row_gc(r, False, 1)), ("gc_diatomic", lambda r: row_gc(r, False, 2)),
        ("gc_dilute", lambda r: row_gc(r, True)), ("gc_diatomic", lambda r: row_gc(r, False, 2))]


# --------------------------------------------------------------------------------------
# one chain
# --------------------------------------------------------------------------------------
def run_chain(sc: dict, seed: int, nsteps: int) -> dict:
    import warnings

    warnings.simplefilter("ignore")
    np.seterr(all="ignore")
    c = copy.deepcopy(sc)
    c["seed"] = seed
    c["steps"] = [{"n": nsteps}]
    if sc["row"].startswith("harmonic"):
        # every chain starts from its OWN draw of the exact equilibrium distribution (harness-side generator): whatever
        # a proposal cannot reach (a Hamiltonian trajectory of exactly one period returns a particle to where it was; a
        # chain that accepts nothing stays put) is then still unbiased across the chains, and chain means are i.i.d.
        g = random.Random(derive(seed, "initial_configuration"))
        pk = sc["calc"]["pot"]
        sig = math.sqrt(sc["params"]["temperature"] * kB / pk["k"])
        c["atoms"]["positions"] = [[pk["center"][j] + g.gauss(0.0, sig) for j in range(3)] for _ in sc["atoms"]["numbers"]]
    warm = sc.get("warmup")
    if warm:
        # the simulation object is built and run at another temperature first, then retuned through the documented
        # setter (annealing / hot equilibration): what it samples afterwards must be the ensemble of the NEW temperature
        c["params"]["temperature"] = warm["temperature"]
    w = make_world(c, (), {"simgen": False, "tape_criteria": False, "probe_check_move": False, "probe_distribution": False})
    mc = w.mc
    atoms = w.atoms
    if warm:
        for _ in mc.srun(warm["steps"]):
            pass
        mc.temperature = sc["params"]["temperature"]
    if sc.get("veto"):
        vr = random.Random(derive(seed, "veto"))
        p = sc["veto"]

        def veto(*a, **k):
            return vr.random() >= p

        for name in mc.moves:
            for lf in World.leaves_of(mc.moves[name].move):
                if type(lf).__name__ in ("DisplacementMove", "CellMove"):
                    lf.check_move = veto
                    lf.max_attempts = 1
    burn = max(50, nsteps // 5)
    from simkit.calcs import Potential
    pot = Potential.from_json(sc["calc"]["pot"])
    acc = {}
    n = 0
    row = sc["row"]
    u = np.array(sc.get("field_dir", [0, 0, 1.0]))
    kk = sc.get("k", 1)
    naccept = 0
    ntrial = 0
    for i, _ in enumerate(mc.srun(nsteps + burn)):
        for _, v in mc.move_history:
            ntrial += 1
            naccept += 1 if v else 0
        if i < burn:
            continue
        n += 1
        if row in ("harmonic", "harmonic_hmc"):
            acc["U"] = acc.get("U", 0.0) + float(mc.context.last_potential_energy)
            # the energy of the configuration actually on the atoms, evaluated by the harness
            acc["U_configuration"] = acc.get("U_configuration", 0.0) + pot.energy(atoms)
        elif row == "dipole":
            b = atoms.positions[0] - atoms.positions[1]
            d = float(np.linalg.norm(b))
            acc["cos_theta"] = acc.get("cos_theta", 0.0) + float(b @ u) / d
            acc["bond"] = acc.get("bond", 0.0) + d
        elif row == "npt_ideal_gas":
            V = float(atoms.get_volume())
            acc["V"] = acc.get("V", 0.0) + V
            acc["V2"] = acc.get("V2", 0.0) + V * V
        elif row == "gc_ideal_gas":
            gas = atoms.numbers != FRAMEWORK_Z
            N = int(np.sum(gas)) // kk
            acc["N"] = acc.get("N", 0.0) + N
            acc["N2"] = acc.get("N2", 0.0) + N * N
            acc["P0"] = acc.get("P0", 0.0) + (1.0 if N == 0 else 0.0)
            if N:
                f = atoms.get_scaled_positions(wrap=True)[gas][::kk]
                acc["sum_fx"] = acc.get("sum_fx", 0.0) + float(np.sum(f[:, 0]))
                acc["sum_fy2"] = acc.get("sum_fy2", 0.0) + float(np.sum(f[:, 1] ** 2))
                acc["sum_fz"] = acc.get("sum_fz", 0.0) + float(np.sum(f[:, 2]))
                if kk == 2:
                    gp = atoms.positions[gas]
                    b = gp[1::2] - gp[0::2]
                    bn = b / np.linalg.norm(b, axis=1)[:, None]
                    acc["sum_c"] = acc.get("sum_c", 0.0) + float(np.sum(bn[:, 2]))
                    acc["sum_c2"] = acc.get("sum_c2", 0.0) + float(np.sum(bn[:, 2] ** 2))
                    phi = np.arctan2(bn[:, 1], bn[:, 0])
                    acc["sum_c2phi"] = acc.get("sum_c2phi", 0.0) + float(np.sum(np.cos(2 * phi)))
    mc.close()
    out = {k: v / n for k, v in acc.items()}
    out["_acceptance"] = naccept / max(1, ntrial)
    out["_trials"] = ntrial
    return out


def chain_value(obs: dict, means: dict):
    if "ratio" in obs:
        num, den, kind = obs["ratio"]
        if kind == "fano":
            m = means.get("N", 0.0)
            return (means.get("N2", 0.0) - m * m) / m if m > 0 else float("nan")
        if kind == 2:
            return means.get(num, 0.0) / means.get(den, 1.0) ** 2
        d = means.get(den, 0.0)
        return means.get(num, 0.0) / d if d > 0 else float("nan")
    return means.get(obs["name"], float("nan"))


class C01(Campaign):
    prop = "C01"
    level = "exploration"
    run_timeout_s = 1500
    replay_timeout_s = 3000
    R = 16
    rule = ("one evaluation = one chain; one run = one scenario row (harmonic particles under Ball/Box/Sphere/composite "
            "operation/composite move/Translation proposals; the same under Hamiltonian moves; rigid dipole in a field "
            "under Rotation/TranslationRotation; isobaric ideal gas N=0..5; grand-canonical ideal gas of atoms or diatomics, "
            "lambda 1..8) with parameters drawn per run, executed as 16 independent seeded chains (+16 longer ones when "
            "flagged); observables are read where the property says (last_potential_energy, volume, particle number, bond "
            "vectors after every step of srun); distinct = (row, proposal, N or lambda class, veto perturbation on/off) "
            "tuples; non-trivial = chains with at least one accepted trial")
    assumptions = ["statistical: stage 1 |t|>4.5 over 16 chain means, or all 16 chain means on one side beyond the floor (sign test); violation only if 16 fresh 4x-longer chains give |t|>6 (or again all on one side), same sign, and a relative deviation above the effect floor (1.5% means, 3-5% second moments)",
                   "with the default VERIF_SEED the whole procedure is deterministic",
                   "quick tier resolves biases of roughly 4-10%; thorough about 2%"]
    real_components = ["quansino Canonical/HamiltonianCanonical/Isobaric/GrandCanonical drivers, all shipped displacement/cell/exchange moves and operations, criteria, Verlet, PCG64 stream"]
    stub_components = ["analytic calculators (harmonic / field / ideal)", "configuration-independent veto callable (neutral perturbation)"]

    def budget(self, tier):
        return {"runs": 16, "wall_s": 170} if tier == "quick" else {"runs": 160, "wall_s": 1700}

    def generate(self, rnd, tier, index):
        name, fn = ROWS[index % len(ROWS)]
        sc = fn(rnd)
        if rnd.random() < 0.3 and sc["driver"] != "HamiltonianCanonical":
            sc["warmup"] = {"temperature": sc["params"]["temperature"] * rnd.choice([0.5, 2.0, 3.0]), "steps": rnd.randint(20, 60)}
            sc["proposal"] += "/retuned"
        sc["master_seed"] = rnd.randint(1, 2**31 - 1)
        sc["scale"] = 1 if tier == "quick" else 3
        return sc

    def sample_view(self, sc):
        return {"row": sc["row"], "proposal": sc["proposal"], "driver": sc["driver"], "T": sc["params"]["temperature"],
                "natoms0": len(sc["atoms"]["numbers"]), "observables": [(o["name"], o["exact"]) for o in sc["observables"]],
                "veto": sc.get("veto"), "steps_per_chain": sc["steps_unit"] * sc.get("scale", 1)}

    def _stage(self, sc, res, stage, nsteps):
        vals = {o["name"]: [] for o in sc["observables"]}
        accs = []
        for j in range(self.R):
            seed = derive(sc["master_seed"], "chain", stage, j) % (2**31 - 1) + 1
            means = run_chain(sc, seed, nsteps)
            res.count("evaluations")
            res.count("trials", means["_trials"])
            accs.append(means["_acceptance"])
            for o in sc["observables"]:
                vals[o["name"]].append(chain_value(o, means))
        return vals, float(np.mean(accs))

    def execute(self, sc):
        res = RunResult()
        nsteps = sc["steps_unit"] * sc.get("scale", 1)
        try:
            vals, acc = self._stage(sc, res, 1, nsteps)
        except Exception as e:  # noqa: BLE001
            info = classify_exception(e)
            if info["harness"]:
                res.harness_error = info["text"]
            else:
                # these are ordinary simulations of exactly solvable systems with a well-behaved calculator: a chain that
                # cannot be run produces no ensemble average at all
                res.violations.append(Violation("C01", "chain_aborted", f"row={sc['row']}|type={info['type']}|where={info['where']}|proposal={sc['proposal']}",
                                                f"driver {sc['driver']}, T={sc['params']['temperature']}:\n" + info["text"]))
            return res.pack()
        cls = sc.get("N", sc.get("lambda", len(sc["atoms"]["numbers"])))
        res.cover.add(f"{sc['row']}|{sc['proposal']}|{int(cls) if cls is not None else '-'}|veto={int(bool(sc.get('veto')))}")
        res.stats["probe.acceptance_permille"] = int(1000 * acc)
        if acc <= 0 and not sc["row"].startswith("harmonic"):
            # (the harmonic rows start from an equilibrium draw, so they stay judgeable with nothing accepted: a chain that
            # never accepts must then also never move)
            res.count("probe.inconclusive_no_acceptance")
            return res.pack()
        flagged = []
        for o in sc["observables"]:
            v = [x for x in vals[o["name"]] if x == x]
            if len(v) < self.R:
                res.count("probe.inconclusive_nan")
                continue
            t, m, se = tstat(v, o["exact"])
            res.count("probe.observables_tested")
            scale1 = 1.0 if o.get("absolute") else abs(o["exact"])
            # (a deviation that could not reach the effect floor anyway is not worth a stage 2)
            if (abs(t) > 4.5 and abs(m - o["exact"]) / scale1 > 0.5 * o["floor"]) or one_sided(v, o["exact"], scale1, o["floor"]):
                flagged.append((o, t, m, se))
                res.count("probe.stage1_flag")
                res.notes.append(f"stage-1 flag {sc['row']}/{sc['proposal']} {o['name']}: mean {m:.6g} exact {o['exact']:.6g} t={t:+.2f} se={se:.3g} values={[round(x, 5) for x in v]}")
        if flagged:
            vals2, _ = self._stage(sc, res, 2, 4 * nsteps)
            for o, t1, m1, se1 in flagged:
                v = [x for x in vals2[o["name"]] if x == x]
                if len(v) < self.R:
                    continue
                t2, m2, se2 = tstat(v, o["exact"])
                scale = 1.0 if o.get("absolute") else abs(o["exact"])
                rel = abs(m2 - o["exact"]) / scale
                if (abs(t2) > 6 or one_sided(v, o["exact"], scale, o["floor"])) and (t1 > 0) == (t2 > 0) and rel > o["floor"]:
                    res.violations.append(Violation(
                        "C01", "ensemble_average_wrong", f"row={sc['row']}|observable={o['name']}|proposal={sc['proposal']}",
                        f"{o['name']}: exact {o['exact']:.6g}; stage 1 mean {m1:.6g} (t={t1:+.1f} over {self.R} chains of {nsteps} steps); "
                        f"stage 2 mean {m2:.6g} +- {se2:.2g} (t={t2:+.1f}, {self.R} fresh chains of {4 * nsteps} steps); "
                        f"relative deviation {rel:.3%} (floor {o['floor']:.1%}); driver {sc['driver']}, T={sc['params']['temperature']}"))
                else:
                    res.count("probe.stage1_flag_not_confirmed")
                    res.notes.append(f"stage-2 did not confirm {o['name']}: mean {m2:.6g} exact {o['exact']:.6g} t={t2:+.2f} rel={rel:.4f}")
        return res.pack()

    def shrink_candidates(self, sc, signature, violation):
        return iter(())

    def nontrivial(self, packed):
        return packed["stats"].get("trials", 0) > 0


CAMPAIGN = C01()
