"""C07 - restarting from any saved step continues the same trajectory.

Reference run of n steps with a RestartObserver on a simulated file; the durable bytes
after every completed write are kept.  Then the process "dies" at EVERY restart point k
(enumerated): bytes_k -> read_json -> Cls.from_dict -> re-attach calculator -> run the
remaining steps; the per-step trace must equal the uninterrupted run's suffix.  Recovery
happens in-process for every k and in a fresh interpreter (random first import, other
PYTHONHASHSEED) for a sample.
"""
from __future__ import annotations

import copy
import io
import json
import os
import random
import subprocess
import sys
import tempfile

import numpy as np

from campaigns.history import HistoryCampaign, gen_history, shrink_mc
from simkit import calcs, gen
from simkit.core import VERIF_DIR, RunResult, Violation, classify_exception
from simkit.simfs import PathPatch, SimDisk
from simkit.world import World, make_world, spec_cat, spec_kind


def step_record(mc) -> dict:
    atoms = mc.atoms
    rec = {
        "arrays": {k: [str(v.dtype), list(v.shape), v.tobytes().hex()] for k, v in sorted(atoms.arrays.items())},
        "cell": np.asarray(atoms.cell.array).tobytes().hex(),
        "pbc": [bool(x) for x in atoms.pbc],
        "history": [[str(n), None if v is None else bool(v)] for n, v in mc.move_history],
        "last_e": repr(float(getattr(mc.context, "last_potential_energy", float("nan")))),
        "N": getattr(mc.context, "number_of_exchange_particles", None),
        "constraints": [[type(c).__name__, [int(i) for i in c.index] if isinstance(getattr(c, "index", None), np.ndarray) else []]
                        for c in atoms.constraints],
        "labels": [],
    }
    if rec["N"] is not None:
        rec["N"] = int(rec["N"])
    def walk(m):
        # per occurrence (object identity is not part of the serialized state)
        subs = getattr(m, "moves", None)
        if isinstance(subs, list):
            for x in subs:
                walk(x)
        elif hasattr(m, "labels"):
            rec["labels"].append([int(x) for x in m.labels])

    for name in mc.moves:
        walk(mc.moves[name].move)
    return rec


def apply_changes(mc, changes, step_abs):
    """The user's own schedule: settings changed on the simulation object right before absolute step `step_abs`."""
    for ch in changes or []:
        if ch["at"] == step_abs:
            for k, v in ch["set"].items():
                if hasattr(type(mc), k):
                    setattr(mc, k, np.array(v, dtype=float) if isinstance(v, list) else v)


def run_traced(mc, nsteps: int, on_step=None, changes=None) -> list:
    out = []
    it = mc.irun(nsteps)
    k = 0
    while True:
        try:
            sg = next(it)
        except StopIteration:
            break
        apply_changes(mc, changes, int(mc.step_count))
        if on_step:
            on_step(k)
        for _ in sg:
            pass
        out.append(step_record(mc))
        k += 1
    if on_step:
        on_step(k)
    return out


FIELDS = ("history", "arrays", "cell", "labels", "N", "last_e", "constraints", "pbc")


def _same_array(x, y) -> bool:
    """[dtype, shape, hex] records: integers and shapes exactly, floating point within rounding.  The restart file cannot
    carry the calculator's cache, and ASE calculators keep results cached for a configuration one unit in the last place
    away (1e-15 comparison tolerance): the uninterrupted run may integrate from such cached forces where the resumed one
    evaluates afresh - differences of 1e-16, not of the size of a move (same cause as correction 18)."""
    if x == y:
        return True
    if x is None or y is None or x[0] != y[0] or x[1] != y[1]:
        return False
    dt = np.dtype(x[0])
    if dt.kind != "f":
        return False
    u = np.frombuffer(bytes.fromhex(x[2]), dtype=dt)
    v = np.frombuffer(bytes.fromhex(y[2]), dtype=dt)
    return bool(np.allclose(u, v, rtol=0, atol=1e-9 * max(1.0, float(np.max(np.abs(u), initial=0.0))), equal_nan=True))


def first_diff(a: dict, b: dict) -> str | None:
    for f in FIELDS:
        if a.get(f) != b.get(f):
            if f == "arrays":
                bad = [k for k in sorted(set(a["arrays"]) | set(b["arrays"]))
                       if not _same_array(a["arrays"].get(k), b["arrays"].get(k))]
                if bad:
                    return f"arrays:{bad[0]}"
                continue
            if f == "cell":
                if _same_array(["float64", [9], a["cell"]], ["float64", [9], b["cell"]]):
                    continue
            if f == "last_e":
                x, y = float(a["last_e"]), float(b["last_e"])
                if abs(x - y) <= 1e-10 * max(1.0, abs(x), abs(y)):
                    continue
            return f
    return None


def resume_inprocess(driver: str, text: str, calc_spec: dict, total_steps: int, changes=None, reuse=False):
    """The documented way: read_json -> Cls.from_dict -> attach calculator -> run.
    reuse: the loaded dictionary is used twice - a first simulation is rebuilt from it and run to the end, then a second
    one is rebuilt from the SAME dictionary object; the second is the one judged."""
    from ase.io.jsonio import read_json
    from simkit.world import driver_class

    data = read_json(io.StringIO(text))
    cls = driver_class(driver)
    if reuse:
        first = cls.from_dict(data)
        first.atoms.calc = calcs.make_calc(calc_spec)
        run_traced(first, total_steps - int(first.step_count), None, changes)
        first.close()
    mc = cls.from_dict(data)
    mc.atoms.calc = calcs.make_calc(calc_spec)
    k = int(mc.step_count)
    return k, run_traced(mc, total_steps - k, None, changes)


class C07(HistoryCampaign):
    prop = "C07"
    level = "fault_enumeration"
    run_timeout_s = 120
    flavor = {
        "drivers": ["Canonical", "HamiltonianCanonical", "Isobaric", "Isobaric", "Isotension", "Isotension",
                    "GrandCanonical", "GrandCanonical"],
        "calc_styles": ["caching", "stateless"],
        "scales": ["moderate"], "constraints": 0.3, "arrays": 0.4, "composites": 0.4, "extended": 0.0,
        "p_force": [0.0], "p_veto": [0.0], "preselect": 0.0, "steps_max": 8, "mask_prob": 0.5, "default_label": 0.2,
    }
    rule = ("one evaluation = one (deployment, restart point k) recovery judged; deployments are generated (every "
            "driver offering restart_file, move-table grammar incl. composites, masks, composite operations, molecular "
            "exchange, constraints, per-atom arrays); restart points are ALL completed writes of the restart observer in "
            "each deployment; distinct = (driver, sorted move categories/operations, restart point is step 0 / middle / "
            "last, recovery in-process or fresh interpreter) tuples; non-trivial = the resumed run had at least one step "
            "left to execute")
    assumptions = ["the calculator is re-attached by the user as documented (calculators are not serialized)",
                   "user-side callables (check_move, distribution) are excepted, as in C08"]
    stub_components = ["analytic calculators", "SimFile for the restart file"]

    def budget(self, tier):
        return {"runs": 5000, "wall_s": 170} if tier == "quick" else {"runs": 400000, "wall_s": 1500}

    def generate(self, rnd, tier, index):
        r = rnd.random()
        if r < 0.06:
            cell = gen.gen_cell(rnd)
            sc = {"driver": rnd.choice(["ForceBias", "AdaptiveForceBias"]), "seed": rnd.randint(1, 2**31 - 1),
                  "atoms": gen.gen_atoms(rnd, rnd.randint(2, 5), cell, arrays=0.2, uid=False),
                  "calc": {"style": "caching", "pot": gen.gen_pot(rnd, cell)},
                  "params": {"delta": 0.05, "min_delta": 0.01, "max_delta": 0.1, "temperature": gen.gen_temperature(rnd)},
                  "steps": [{"n": rnd.randint(1, 5)}]}
        else:
            sc = gen_history(rnd, self.flavor)
            sc["steps"] = [{"n": sum(s["n"] for s in sc["steps"])}]
            sc.pop("faults", None)
        sc["files"] = {"restart_file": {"name": "restart.json", "as": rnd.choice(["object", "path"]),
                                        "mode": rnd.choice(["a", "w"])},
                       "logging_interval": rnd.choice([1, 1, 2, 3])}
        sc["files"]["logging_mode"] = sc["files"]["restart_file"]["mode"]
        if sc["driver"] not in ("ForceBias", "AdaptiveForceBias") and rnd.random() < 0.35:
            # the user changes settings on the running simulation; later restart files must carry the new values
            n = sum(s["n"] for s in sc["steps"])
            chs = []
            for _ in range(rnd.randint(1, 2)):
                st = {"temperature": gen.gen_temperature(rnd)}
                if sc["driver"] in ("Isobaric", "Isotension") and rnd.random() < 0.6:
                    st["pressure"] = rnd.choice([gen.logu(rnd, 1e-4, 1e-1), gen.logu(rnd, 1e-4, 1e-1), 0.0])
                if sc["driver"] == "Isotension" and rnd.random() < 0.5:
                    a = [gen.rfloat(rnd, -0.05, 0.05, 5) for _ in range(6)]
                    st["external_stress"] = [[a[0], a[3], a[4]], [a[3], a[1], a[5]], [a[4], a[5], a[2]]]
                if sc["driver"] == "GrandCanonical" and rnd.random() < 0.6:
                    st["chemical_potential"] = rnd.choice([gen.rfloat(rnd, -0.5, 0.5, 4), gen.rfloat(rnd, -0.5, 0.5, 4), 0.0])
                if sc["driver"] == "GrandCanonical" and rnd.random() < 0.3:
                    st["accessible_volume"] = gen.logu(rnd, 50.0, 500.0)
                chs.append({"at": rnd.randint(1, max(1, n - 1)), "set": st})
            sc["changes"] = chs
        sc["fresh"] = rnd.random() < (0.04 if tier == "quick" else 0.1)
        sc["reuse_dict"] = rnd.random() < 0.3
        sc["fresh_first_import"] = rnd.choice(PUBLIC_MODULES)
        return sc

    def sample_view(self, sc):
        if sc["driver"] in ("ForceBias", "AdaptiveForceBias"):
            return {"driver": sc["driver"], "steps": sc["steps"], "files": sc["files"]}
        v = super().sample_view(sc)
        v["restart_interval"] = sc["files"]["logging_interval"]
        v["fresh_interpreter"] = sc.get("fresh")
        return v

    # -- execution ---------------------------------------------------------------------
    def execute(self, sc):
        import warnings

        warnings.simplefilter("ignore")
        np.seterr(all="ignore")
        res = RunResult()
        disk = SimDisk()
        opts = {"simgen": False, "tape_criteria": False, "probe_check_move": False, "probe_distribution": False}
        drv = sc["driver"]
        n = sum(s["n"] for s in sc["steps"])
        table = "+".join(sorted({spec_cat(e["move"], sc) for e in sc.get("moves", [])}))
        try:
            with PathPatch(disk):
                w = make_world(sc, (), opts, disk)
        except Exception as e:  # noqa: BLE001
            info = classify_exception(e)
            if info["harness"]:
                res.harness_error = info["text"]
            else:
                res.violations.append(Violation("C07", "cannot_build_with_restart_file", f"driver={drv}|type={info['type']}", info["text"]))
            return res.pack()
        saved = {}

        def on_step(k):
            f = disk.files.get("restart.json")
            if f is not None and f.durable:
                saved[k] = f.durable

        if drv in ("ForceBias", "AdaptiveForceBias"):
            return self._forcebias(sc, w, disk, res)
        try:
            ref = run_traced(w.mc, n, on_step, sc.get("changes"))
        except Exception as e:  # noqa: BLE001
            info = classify_exception(e)
            w.mc.close()
            if info["harness"]:
                res.harness_error = info["text"]
            elif info["owner"] in ("C16", "C07", "C08") or "todict" in info["text"] or "jsonio" in info["text"]:
                res.violations.append(Violation("C07", "restart_file_cannot_be_written", f"driver={drv}|type={info['type']}|where={info['where']}", info["text"]))
            else:
                res.foreign.append({k: info[k] for k in ("type", "where", "owner")} | {"phase": "reference"})
            return res.pack()
        w.mc.close()
        res.count("steps", n)
        res.count("trials", sum(len(r["history"]) for r in ref))
        # distinct saved documents by the step they describe
        points = {}
        for k, text in saved.items():
            points.setdefault(text, k)
        for text, k_seen in sorted(points.items(), key=lambda kv: kv[1]):
            self._judge_point(sc, res, text, ref, n, table, fresh=False)
            res.count("fault.crash_restart_inprocess")
        if sc.get("reuse_dict") and points and not res.violations:
            texts = sorted(points, key=lambda t: points[t])
            self._judge_point(sc, res, texts[len(texts) // 2], ref, n, table, fresh=False, reuse=True)
            res.count("fault.loaded_dictionary_used_twice")
        if sc.get("fresh") and points and not res.violations:
            texts = sorted(points, key=lambda t: points[t])
            pick = texts[len(texts) // 2]
            self._judge_point(sc, res, pick, ref, n, table, fresh=True)
            res.count("fault.crash_restart_fresh_interpreter")
        return res.pack()

    def _judge_point(self, sc, res, text, ref, n, table, fresh, reuse=False):
        drv = sc["driver"]
        res.count("evaluations")
        try:
            if fresh:
                k, trace = resume_fresh(sc, text, n)
            else:
                k, trace = resume_inprocess(drv, text, sc["calc"], n, sc.get("changes"), reuse=reuse)
        except FreshFailure as e:
            res.violations.append(Violation("C07", "resume_failed", f"driver={drv}|type={e.etype}|where={e.where}|recovery=fresh",
                                            e.text, at=f"fresh interpreter, first import {sc.get('fresh_first_import')}"))
            return
        except Exception as e:  # noqa: BLE001
            info = classify_exception(e)
            if info["harness"]:
                res.harness_error = info["text"]
                return
            res.violations.append(Violation("C07", "resume_failed", f"driver={drv}|type={info['type']}|where={info['where']}|recovery=inprocess",
                                            f"table {table}\n" + info["text"], at=f"restart point (unknown step)"))
            return
        where = "first" if k == 0 else ("last" if k >= n else "middle")
        res.cover.add(f"{drv}|{table}|{where}|{'fresh' if fresh else 'inproc'}")
        if k < n:
            res.count("probe.resumed_with_steps_left")
        expect = ref[k:]
        if len(trace) != len(expect):
            res.violations.append(Violation("C07", "resumed_run_wrong_length", f"driver={drv}",
                                            f"resumed from step {k}: {len(trace)} steps instead of {len(expect)}", at=f"k={k}"))
            return
        for j, (a, b) in enumerate(zip(expect, trace)):
            d = first_diff(a, b)
            if d:
                res.violations.append(Violation(
                    "C07", "resumed_run_diverges", f"driver={drv}|first_diff={d.split(':')[0]}|recovery={'fresh' if fresh else 'inprocess_dictionary_used_twice' if reuse else 'inprocess'}",
                    f"table {table}; resumed from the file written at step {k}; step {k + j} differs in {d}: "
                    f"uninterrupted history {a['history']} vs resumed {b['history']}", at=f"k={k} step={k + j}",
                    data={"k": k}))
                return

    def _forcebias(self, sc, w, disk, res):
        drv = sc["driver"]
        n = sum(s["n"] for s in sc["steps"])
        try:
            w.mc.run(n)
        except Exception as e:  # noqa: BLE001
            info = classify_exception(e)
            w.mc.close()
            res.violations.append(Violation("C07", "restart_file_cannot_be_written", f"driver={drv}|type={info['type']}|where={info['where']}", info["text"]))
            return res.pack()
        w.mc.close()
        text = disk.files["restart.json"].durable
        res.count("evaluations")
        res.cover.add(f"{drv}|fbstep|last|inproc")
        from ase.io.jsonio import read_json
        from simkit.world import driver_class
        try:
            data = read_json(io.StringIO(text))
            cls = driver_class(drv)
            if not hasattr(cls, "from_dict"):
                res.violations.append(Violation("C07", "resume_failed", f"driver={drv}|type=NoFromDict|where=-|recovery=inprocess",
                                                f"{drv} accepts restart_file and writes it, but offers no from_dict to rebuild the simulation "
                                                f"(the file holds keys {sorted(data)})"))
                return res.pack()
            cls.from_dict(data)
        except Exception as e:  # noqa: BLE001
            info = classify_exception(e)
            res.violations.append(Violation("C07", "resume_failed", f"driver={drv}|type={info['type']}|where={info['where']}|recovery=inprocess",
                                            f"{e}\n" + info["text"]))
        return res.pack()

    def shrink_candidates(self, sc, signature, violation):
        if sc["driver"] in ("ForceBias", "AdaptiveForceBias"):
            return
        if sc["files"].get("logging_interval", 1) != 1:
            c = copy.deepcopy(sc)
            c["files"]["logging_interval"] = 1
            yield c
        if sc.get("fresh") and "recovery=fresh" not in signature:
            c = copy.deepcopy(sc)
            c["fresh"] = False
            yield c
        for c in shrink_mc(sc, signature, violation):
            c["steps"] = [{"n": sum(s["n"] for s in c["steps"])}]
            yield c

    def nontrivial(self, packed):
        return packed["stats"].get("probe.resumed_with_steps_left", 0) > 0 or packed["stats"].get("evaluations", 0) > 0


# --------------------------------------------------------------------------------------
# fresh-interpreter recovery
# --------------------------------------------------------------------------------------
def _public_modules():
    root = os.path.join(os.environ.get("VERIF_REPO_SRC", "/repo/src"), "quansino")
    mods = []
    for dirpath, dirnames, filenames in os.walk(root):
        dirnames[:] = sorted(d for d in dirnames if not d.startswith("_"))
        rel = os.path.relpath(dirpath, os.path.dirname(root)).replace(os.sep, ".")
        for fn in sorted(filenames):
            if fn.endswith(".py") and not fn.startswith("_"):
                mods.append(f"{rel}.{fn[:-3]}")
            elif fn == "__init__.py":
                mods.append(rel)
    return sorted(set(mods))


PUBLIC_MODULES = _public_modules()


class FreshFailure(Exception):
    def __init__(self, etype, where, text):
        super().__init__(text)
        self.etype, self.where, self.text = etype, where, text


def resume_fresh(sc, text, total_steps):
    job = {"driver": sc["driver"], "text": text, "calc": sc["calc"], "total": total_steps, "changes": sc.get("changes"),
           "first_import": sc.get("fresh_first_import", "quansino.mc")}
    with tempfile.NamedTemporaryFile("w", suffix=".json", prefix="qjob_", delete=False) as f:
        json.dump(job, f)
        path = f.name
    try:
        env = dict(os.environ)
        env["PYTHONHASHSEED"] = str(1 + (len(text) % 1000))
        p = subprocess.run([sys.executable, os.path.join(VERIF_DIR, "simkit", "freshproc.py"), "resume", path],
                           capture_output=True, text=True, timeout=120, env=env)
    finally:
        os.unlink(path)
    if p.returncode != 0:
        raise RuntimeError(f"fresh interpreter failed: {p.stderr[-2000:]}")
    out = json.loads(p.stdout.strip().splitlines()[-1])
    if "error" in out:
        raise FreshFailure(out["error"]["type"], out["error"]["where"], out["error"]["text"])
    return out["k"], out["trace"]


CAMPAIGN = C07()
