"""C08 - every shipped component survives serialization with its full configuration.

Component mode of the restart runner: object -> to_dict -> JSON text on the simulated
disk -> the process "dies" -> a different process decodes the text, looks the class up
by its registered name and rebuilds it.  Two kinds of runs:

 * import-order runs (fault F13): a FRESH interpreter imports one public module of the
   package first (each module in turn), then the rest, then rebuilds every component and
   every driver's settings;
 * variant runs: randomly configured and nested components (every constructor parameter
   and documented tunable away from its default, composites to depth 3) rebuilt in-process
   through the same decode -> registry -> from_dict path.

Classes are found by introspection of the package, so classes added later are included.
"""
from __future__ import annotations

import importlib
import inspect
import json
import os
import pkgutil
import random
import re
import subprocess
import sys
import tempfile

import numpy as np

from campaigns.c07 import PUBLIC_MODULES
from simkit.core import VERIF_DIR, RunResult, Violation, classify_exception
from simkit.engine import Campaign

SKIP_ATTRS = {"context", "check_move", "composite_move_type", "distribution", "is_updatable", "unique_labels"}


def _load_all():
    import quansino

    for m in PUBLIC_MODULES:
        try:
            importlib.import_module(m)
        except Exception:  # noqa: BLE001
            pass
    return quansino


def role_of(cls) -> str | None:
    """move / operation / integrator / criteria / storage for concrete serializable classes."""
    from quansino.integrators.core import BaseIntegrator
    from quansino.mc.criteria import BaseCriteria
    from quansino.moves.core import BaseMove
    from quansino.operations.core import BaseOperation

    if not (hasattr(cls, "to_dict") and hasattr(cls, "from_dict")) or inspect.isabstract(cls):
        return None
    if getattr(cls, "_is_protocol", False):
        return None
    if cls.__name__ == "MoveStorage":
        return "storage"
    if cls.__name__.startswith("Base"):
        return None
    if hasattr(cls, "evaluate"):
        return "criteria"
    if hasattr(cls, "integrate"):
        return "integrator" if cls.integrate is not BaseIntegrator.integrate else None
    if hasattr(cls, "calculate"):
        return "operation" if getattr(cls, "calculate", None) is not BaseOperation.calculate else None
    if hasattr(cls, "on_atoms_changed") and callable(cls):
        return "move" if cls.__call__ is not BaseMove.__call__ else None
    return None


def discover() -> dict:
    _load_all()
    found = {}
    for modname, mod in sorted(sys.modules.items()):
        if not modname.startswith("quansino"):
            continue
        for name, obj in sorted(vars(mod).items()):
            if inspect.isclass(obj) and obj.__module__.startswith("quansino"):
                r = role_of(obj)
                if r:
                    found[obj.__name__] = (obj, r)
    return found


def documented_attrs(cls) -> dict:
    """names from the numpy-style 'Attributes' sections along the MRO -> description"""
    out = {}
    for k in cls.__mro__:
        doc = k.__dict__.get("__doc__") or ""
        m = re.search(r"Attributes\s*\n\s*-+\s*\n(.*?)(\n\s*\n\s*[A-Z][A-Za-z ]+\n\s*-+\s*\n|\Z)", doc, re.S)
        if not m:
            continue
        cur = None
        for line in m.group(1).splitlines():
            mm = re.match(r"^\s{0,8}([A-Za-z_][A-Za-z0-9_]*)\s*:", line)
            if mm and not line.startswith(" " * 9):
                cur = mm.group(1)
                out.setdefault(cur, "")
            elif cur:
                out[cur] += " " + line.strip()
    return out


def ctor_params(cls) -> list:
    try:
        sig = inspect.signature(cls.__init__)
    except (TypeError, ValueError):
        return []
    return [p for n, p in sig.parameters.items() if n != "self" and p.kind in (p.POSITIONAL_OR_KEYWORD, p.KEYWORD_ONLY)]


def norm(v, depth=0):
    from ase import Atoms

    if v is None or isinstance(v, bool | int | float | str):
        return v
    if isinstance(v, np.generic):
        return v.item()
    if isinstance(v, np.ndarray):
        return {"nd": [str(v.dtype), list(v.shape), v.tolist()]}
    if isinstance(v, Atoms):
        return {"atoms": {k: norm(x) for k, x in sorted(v.arrays.items())} | {"cell": v.cell.array.tolist(), "pbc": v.pbc.tolist()}}
    if isinstance(v, list | tuple):
        return [norm(x, depth + 1) for x in v]
    if isinstance(v, dict):
        return {str(k): norm(x, depth + 1) for k, x in sorted(v.items(), key=lambda kv: str(kv[0]))}
    if hasattr(v, "to_dict") and not inspect.isclass(v):
        return describe(v, depth + 1)
    if callable(v) or inspect.isclass(v):
        return "<callable>"
    return repr(v)


def describe(obj, depth=0) -> dict:
    cls = type(obj)
    out = {"__type__": cls.__name__}
    docs = documented_attrs(cls)
    names = {p.name for p in ctor_params(cls)} | set(docs)
    for n in sorted(names):
        if n in SKIP_ATTRS or "eset" in docs.get(n, ""):
            continue
        if not hasattr(obj, n):
            continue
        out[n] = norm(getattr(obj, n), depth)
    return out


# --------------------------------------------------------------------------------------
# building configured components
# --------------------------------------------------------------------------------------
_SIBLING_DEFAULTS: dict = {}


def sibling_defaults(classes: dict) -> dict:
    """For every documented tunable attribute name: the values freshly constructed instances of the registered classes
    carry (a function of the code only).  A tunable set to the default of *another* class is a non-default value that a
    serializer comparing against the wrong default silently drops (seeded C08-4)."""
    key = tuple(sorted(classes))
    if key not in _SIBLING_DEFAULTS:
        out: dict = {}
        f = Factory(random.Random(0), classes, tune=False)
        for name in sorted(classes):
            try:
                obj = f.make(name, 1)
            except Exception:  # noqa: BLE001
                continue
            for a in documented_attrs(classes[name][0]):
                v = getattr(obj, a, None)
                if isinstance(v, int | float) and not isinstance(v, bool):
                    out.setdefault(a, set()).add(v)
        _SIBLING_DEFAULTS[key] = {a: sorted(v) for a, v in out.items()}
    return _SIBLING_DEFAULTS[key]


class Factory:
    def __init__(self, rnd: random.Random, classes: dict, tune=True):
        self.rnd = rnd
        self.classes = classes
        self.skipped = []
        self.tune = tune

    def by_role(self, role, pred=lambda n: True):
        return sorted(n for n, (c, r) in self.classes.items() if r == role and pred(n))

    def op_for(self, owner: str, depth):
        rnd = self.rnd
        ops = self.by_role("operation")
        cellops = [n for n in ops if "Deformation" in n]
        dispops = [n for n in ops if n not in cellops and n != "CompositeOperation"]
        if owner == "CellMove":
            pool = cellops
        else:
            pool = dispops
        if "CompositeOperation" in self.classes and depth < 2 and rnd.random() < 0.3:
            return self.classes["CompositeOperation"][0]([self.make(rnd.choice(pool), depth + 1) for _ in range(rnd.randint(2, 3))])
        return self.make(rnd.choice(pool), depth + 1)

    def num(self, lo, hi, nd):
        """A number in [lo, hi]: a short decimal, or (30%) one with all its digits - lossy serialization must show."""
        v = self.rnd.uniform(lo, hi)
        return v if self.rnd.random() < 0.3 else round(v, nd)

    def value(self, owner: str, p, depth):
        rnd = self.rnd
        n = p.name
        if n in ("step_size", "max_value"):
            return self.num(0.011, 0.9, 4)
        if n == "mask":
            d = [rnd.random() < 0.6 for _ in range(3)]
            o = [rnd.random() < 0.5 for _ in range(3)]
            m = np.array([[d[0], o[0], o[1]], [o[0], d[1], o[2]], [o[1], o[2], d[2]]], dtype=bool)
            if m.all():
                m[0, 1] = m[1, 0] = False
            return m
        if n == "dt":
            return self.num(0.1, 3.0, 3) if rnd.random() < 0.8 else self.num(1e-12, 1e-9, 15)
        if n == "max_steps":
            return rnd.randint(2, 9)
        if n in ("apply_constraints", "scale_atoms"):
            return False
        if n == "labels":
            return np.array([rnd.choice([-1, 0, 1, 2, 5, 9]) for _ in range(rnd.randint(1, 6))])
        if n == "bias_towards_insert":
            return self.num(0.05, 0.45, 3)
        if n == "operation":
            if owner == "HamiltonianDisplacementMove":
                return self.make(rnd.choice(self.by_role("integrator")), depth + 1)
            return self.op_for(owner, depth)
        if n == "operations":
            pool = [x for x in self.by_role("operation") if "Deformation" not in x and (depth < 2 or x != "CompositeOperation")]
            return [self.make(rnd.choice(pool), depth + 1) for _ in range(rnd.randint(1, 3))]
        if n == "moves":
            if owner == "CompositeDisplacementMove":
                pool = ["DisplacementMove"]
            elif owner == "CompositeExchangeMove":
                pool = ["ExchangeMove"]
            else:
                pool = [x for x in self.by_role("move") if depth < 2 or not x.startswith("Composite")]
            return [self.make(rnd.choice(pool), depth + 1) for _ in range(rnd.randint(1, 3))]
        if n == "move":
            return self.make(rnd.choice(self.by_role("move")), depth + 1)
        if n == "criteria":
            return self.make(rnd.choice(self.by_role("criteria")), depth + 1)
        if n == "interval":
            return rnd.randint(2, 7)
        if n == "probability":
            return self.num(0.05, 0.95, 3)
        if n == "minimum_count":
            return rnd.randint(1, 3)
        if n == "distribution":
            return inspect.Parameter.empty  # callable: excepted, keep the default
        return None

    def make(self, name: str, depth=0):
        cls, role = self.classes[name]
        kwargs = {}
        for p in ctor_params(cls):
            v = self.value(name, p, depth)
            if v is inspect.Parameter.empty:
                continue
            if v is None:
                if p.default is inspect.Parameter.empty:
                    raise LookupError(f"no value rule for required parameter {name}.{p.name}")
                continue  # unknown optional parameter: left at its default (reported in evidence)
            kwargs[p.name] = v
        obj = cls(**kwargs)
        if not self.tune:
            return obj
        # documented tunables away from their defaults
        docs = documented_attrs(cls)
        siblings = sibling_defaults(self.classes)
        params = {p.name for p in ctor_params(cls)}
        for a, desc in sorted(docs.items()):
            if a in params or a in SKIP_ATTRS or "eset" in desc or not hasattr(obj, a):
                continue
            cur = getattr(obj, a)
            other = [v for v in siblings.get(a, []) if v != cur]
            try:
                if other and isinstance(cur, int | float) and not isinstance(cur, bool) and self.rnd.random() < 0.4:
                    setattr(obj, a, self.rnd.choice(other))
                elif a == "max_attempts":
                    setattr(obj, a, self.rnd.randint(2, 50))
                elif a == "default_label":
                    setattr(obj, a, self.rnd.choice([0, 3, -1, 7]))
                elif a == "bias_towards_insert":
                    setattr(obj, a, round(self.rnd.uniform(0.05, 0.45), 3))
                elif isinstance(cur, bool):
                    setattr(obj, a, not cur)
                elif isinstance(cur, float):
                    setattr(obj, a, round(cur * 0.5 + 0.123, 4))
            except (AttributeError, TypeError):
                pass
        if name == "CompositeExchangeMove" and hasattr(obj, "bias_towards_insert"):
            obj.bias_towards_insert = round(self.rnd.uniform(0.05, 0.45), 3)
        return obj


class NoFromDict(Exception):
    pass


def pack_component(cid: str, obj) -> dict:
    from ase.io.jsonio import encode

    return {"id": cid, "type": type(obj).__name__, "txt": encode(obj.to_dict()), "desc": encode(describe(obj))}


def rebuild_report(comp: dict) -> dict:
    """Executed by the recovering process."""
    from ase.io.jsonio import decode, encode
    from quansino.registry import get_class

    d = decode(comp["txt"], always_array=False) if comp.get("kind") != "driver" else decode(comp["txt"])
    if comp.get("kind") == "driver":
        cls = get_class(d["name"])
        if not hasattr(cls, "from_dict"):
            raise NoFromDict(f"{d['name']} offers to_dict / restart_file but has no from_dict to rebuild it")
        obj = cls.from_dict(d)
        return {"id": comp["id"], "type": type(obj).__name__, "desc": encode(describe_driver(obj))}
    d = decode(comp["txt"])
    cls = get_class(d["name"])
    obj = cls.from_dict(d)
    return {"id": comp["id"], "type": type(obj).__name__, "txt2": encode(obj.to_dict()), "desc": encode(describe(obj))}


# --------------------------------------------------------------------------------------
# simulation-level settings
# --------------------------------------------------------------------------------------
SETTINGS = ("temperature", "pressure", "external_stress", "chemical_potential", "number_of_exchange_particles",
            "accessible_volume", "exchange_atoms", "max_cycles", "_seed", "step_count", "delta", "min_delta", "max_delta",
            "reference_variance", "scheme", "update_function", "masses_scaling_power", "logging_interval")


def describe_driver(mc) -> dict:
    out = {"__type__": type(mc).__name__}
    for s in SETTINGS:
        if hasattr(mc, s):
            out[s] = norm(getattr(mc, s))
    out["rng_state"] = norm(mc._rng.bit_generator.state)
    out["natoms"] = len(mc.atoms)
    out["positions"] = norm(mc.atoms.positions)
    return out


def make_driver(name: str, rnd: random.Random):
    from ase import Atoms

    from simkit import calcs
    from simkit.world import driver_class

    cls = driver_class(name)
    atoms = Atoms("ArCuO", positions=[[1, 1, 1], [2.5, 1.2, 0.7], [0.4, 2.2, 2.9]], cell=[[6, 0, 0], [0.3, 5, 0], [0, 0.2, 7]], pbc=True)
    atoms.calc = calcs.CachingCalc(calcs.Potential(k=0.1, center=(3, 2.5, 3.5)))
    kw = {"seed": rnd.choice([0, 1, 12345, 2**40 + 7]), "logging_interval": rnd.randint(2, 5)}
    T = round(rnd.uniform(50, 900), 2)

    def special(value, *falsy):
        """Valid values a serializer may mistake for 'not set': zero, negative, integral floats."""
        return rnd.choice(falsy) if rnd.random() < 0.3 else value

    if name == "MonteCarlo":
        mc = cls(atoms, max_cycles=rnd.randint(2, 6), **kw)
    elif name in ("Canonical", "HamiltonianCanonical"):
        mc = cls(atoms, temperature=T, max_cycles=rnd.randint(2, 6), **kw)
    elif name == "Isobaric":
        mc = cls(atoms, temperature=T, pressure=special(round(rnd.uniform(0.001, 0.1), 5), 0.0, -0.01, 1.0), max_cycles=rnd.randint(2, 6), **kw)
    elif name == "Isotension":
        a = [round(rnd.uniform(-0.05, 0.05), 5) for _ in range(6)]
        S = special(np.array([[a[0], a[3], a[4]], [a[3], a[1], a[5]], [a[4], a[5], a[2]]]), np.zeros((3, 3)), np.eye(3) * a[0],
                    np.array([[0.0, a[3], 0.0], [0.0, 0.0, 0.0], [0.0, 0.0, 0.0]]),  # a shear given in the upper triangle only
                    np.array([[a[0], a[3], a[4]], [-a[3], a[1], a[5]], [0.5 * a[4], 0.0, a[2]]]))
        mc = cls(atoms, temperature=T, pressure=special(round(rnd.uniform(0.001, 0.1), 5), 0.0, -0.01, 1.0), external_stress=S, max_cycles=rnd.randint(2, 6), **kw)
    elif name == "GrandCanonical":
        ex = Atoms("CO", positions=[[0, 0, 0], [0, 0, 1.13]])
        if rnd.random() < 0.4:
            # the number of cycles is left at its documented default (one per atom present at construction) and the
            # simulation is saved after insertions have been accepted: the restart must carry the value in use
            from quansino.moves.exchange import ExchangeMove

            mc = cls(atoms, exchange_atoms=ex, temperature=900.0, chemical_potential=5.0, number_of_exchange_particles=0, **kw)
            mc.add_move(ExchangeMove(np.full(len(atoms), -1), bias_towards_insert=0.9), name="exchange")
            mc.run(rnd.randint(1, 2))
        else:
            mc = cls(atoms, exchange_atoms=ex, temperature=T, chemical_potential=special(round(rnd.uniform(-1, 1), 4), 0.0, 1.0, -1.0),
                     number_of_exchange_particles=special(rnd.randint(1, 3), 0), max_cycles=rnd.randint(1, 6), **kw)
        mc.accessible_volume = round(rnd.uniform(50, 150), 3)
    elif name == "ForceBias":
        import warnings
        with warnings.catch_warnings():
            warnings.simplefilter("ignore")
            mc = cls(atoms, delta=round(rnd.uniform(0.01, 0.2), 4), temperature=T, **kw)
        mc.masses_scaling_power = special(round(rnd.uniform(0.1, 0.9), 3), 0.0, 1.0, 0.25)
    elif name == "AdaptiveForceBias":
        import warnings
        with warnings.catch_warnings():
            warnings.simplefilter("ignore")
            mc = cls(atoms, min_delta=0.02, max_delta=0.3, temperature=T, scheme="energy", reference_variance=0.37,
                     update_function="exp", **kw)
    mc._rng.random(rnd.randint(1, 9))
    mc.step_count = rnd.randint(1, 50)
    return mc


DRIVERS = ["MonteCarlo", "Canonical", "HamiltonianCanonical", "Isobaric", "Isotension", "GrandCanonical", "ForceBias",
           "AdaptiveForceBias"]


def pack_driver(name: str, rnd: random.Random) -> dict:
    from ase.io.jsonio import encode

    mc = make_driver(name, rnd)
    out = {"id": f"driver:{name}", "kind": "driver", "type": name, "txt": encode(mc), "desc": encode(describe_driver(mc))}
    mc.close()
    return out


# --------------------------------------------------------------------------------------
class C08(Campaign):
    prop = "C08"
    level = "exploration"
    run_timeout_s = 240
    rule = ("one evaluation = one component (or driver settings) rebuilt from its JSON text by registered name and "
            "compared (type, to_dict again, every constructor parameter and documented tunable); import-order runs "
            "do that for every discovered class in a fresh interpreter per public module imported first; variant "
            "runs do it in-process for randomly configured, nested instances; distinct = (class, role, recovery "
            "mode, first-imported module or nesting signature) tuples; non-trivial = a component with at least one "
            "non-default parameter was rebuilt")
    assumptions = ["callables (check_move, distribution) and types are excepted, as the statement says",
                   "a constructor parameter the factory has no value rule for is left at its default and reported in the evidence, not judged",
                   "the class x parameter sweep itself is plain enumeration; the simulated part is recovery by a different process with a chosen import order"]
    real_components = ["quansino registry, to_dict/from_dict of every discovered class", "ASE jsonio encode/decode",
                       "fresh CPython interpreters for import-order runs"]
    stub_components = ["none (the simulated disk is a JSON job file handed to the recovering process)"]

    def budget(self, tier):
        nimp = len(PUBLIC_MODULES)
        return {"runs": nimp + 2500, "wall_s": 170} if tier == "quick" else {"runs": nimp * 4 + 200000, "wall_s": 1500}

    def generate(self, rnd, tier, index):
        nimp = len(PUBLIC_MODULES)
        if index < nimp or (tier == "thorough" and index < 4 * nimp):
            return {"kind": "import", "module": PUBLIC_MODULES[index % nimp], "seed": rnd.randint(0, 2**31), "hashseed": index % 5}
        return {"kind": "variant", "seed": rnd.randint(0, 2**31)}

    def sample_view(self, sc):
        return sc

    def _components(self, seed, per_class=1):
        classes = discover()
        rnd = random.Random(seed)
        fac = Factory(rnd, classes)
        comps, skipped = [], []
        for name in sorted(classes):
            for j in range(per_class):
                try:
                    obj = fac.make(name, 0)
                except LookupError as e:
                    skipped.append(str(e))
                    continue
                comps.append(pack_component(f"{name}#{j}", obj) | {"role": classes[name][1]})
        return classes, comps, skipped

    def execute(self, sc):
        import warnings

        warnings.simplefilter("ignore")
        res = RunResult()
        try:
            classes, comps, skipped = self._components(sc["seed"], 1 if sc["kind"] == "import" else 2)
        except Exception as e:  # noqa: BLE001
            info = classify_exception(e)
            if info["harness"]:
                res.harness_error = info["text"]
            else:
                res.violations.append(Violation("C08", "cannot_build_component", f"type={info['type']}|where={info['where']}", info["text"]))
            return res.pack()
        res.count("probe.classes_discovered", len(classes))
        res.count("probe.params_without_value_rule", len(skipped))
        rnd = random.Random(sc["seed"] + 1)
        drivers = []
        for d in DRIVERS:
            try:
                drivers.append(pack_driver(d, rnd))
            except Exception as e:  # noqa: BLE001
                info = classify_exception(e)
                if info["harness"]:
                    res.harness_error = info["text"]
                    return res.pack()
                res.violations.append(Violation("C08", "driver_not_serializable", f"driver={d}|type={info['type']}|where={info['where']}", info["text"]))
        if sc["kind"] == "import":
            job = {"first_import": sc["module"], "components": comps + drivers}
            with tempfile.NamedTemporaryFile("w", suffix=".json", prefix="qjob_", delete=False) as f:
                json.dump(job, f)
                path = f.name
            try:
                env = dict(os.environ, PYTHONHASHSEED=str(sc.get("hashseed", 0)))
                p = subprocess.run([sys.executable, os.path.join(VERIF_DIR, "simkit", "freshproc.py"), "components", path],
                                   capture_output=True, text=True, timeout=200, env=env)
            finally:
                os.unlink(path)
            if p.returncode != 0:
                res.harness_error = "fresh interpreter crashed: " + p.stderr[-2000:]
                return res.pack()
            out = json.loads(p.stdout.strip().splitlines()[-1])
            res.count("fault.fresh_interpreter_first_import")
            mode = f"fresh:{sc['module']}"
            if not out["import_ok"]:
                ie = out["import_error"]
                res.violations.append(Violation("C08", "import_fails_when_first", f"module={sc['module']}|type={ie['type']}", ie["text"]))
                res.cover.add(f"import|{sc['module']}|failed")
                return res.pack()
            reports = {r["id"]: r for r in out["results"]}
        else:
            mode = "inprocess"
            reports = {}
            for c in comps + drivers:
                try:
                    reports[c["id"]] = rebuild_report(c)
                except Exception as e:  # noqa: BLE001
                    from simkit.freshproc import _err

                    reports[c["id"]] = {"id": c["id"], "error": _err(e)}
        for c in comps + drivers:
            r = reports.get(c["id"])
            res.count("evaluations")
            cname = c["type"]
            kind = c.get("kind", "component")
            res.cover.add(f"{cname}|{c.get('role', 'driver')}|{mode}")
            if r is None:
                res.harness_error = f"no report for {c['id']}"
                continue
            if "error" in r:
                e = r["error"]
                res.violations.append(Violation("C08", "cannot_rebuild", f"class={cname}|type={e['type']}|where={e['where']}",
                                                f"{c['id']} ({mode}):\n{e['text']}"))
                continue
            if r["type"] != cname:
                res.violations.append(Violation("C08", "rebuilt_type_differs", f"class={cname}|got={r['type']}", f"{c['id']} ({mode})"))
                continue
            if kind != "driver" and r["txt2"] != c["txt"]:
                a, b = json.loads(c["txt"]), json.loads(r["txt2"])
                res.violations.append(Violation("C08", "reserialized_dict_differs", f"class={cname}|keys={_diffkeys(a, b)}",
                                                f"{c['id']} ({mode}): {c['txt'][:600]}\n  vs {r['txt2'][:600]}"))
            if r["desc"] != c["desc"]:
                a, b = json.loads(c["desc"]), json.loads(r["desc"])
                res.violations.append(Violation("C08", "configuration_lost", f"class={cname}|attrs={_diffkeys(a, b)}",
                                                f"{c['id']} ({mode}): original {_difftext(a, b)}"))
        return res.pack()

    def shrink_candidates(self, sc, signature, violation):
        return iter(())

    def nontrivial(self, packed):
        return packed["stats"].get("evaluations", 0) > 0


def _diffkeys(a, b, prefix=""):
    out = []
    if isinstance(a, dict) and isinstance(b, dict):
        for k in sorted(set(a) | set(b)):
            if a.get(k) != b.get(k):
                if isinstance(a.get(k), dict) and isinstance(b.get(k), dict) and "__type__" in a.get(k, {}) :
                    out.append(f"{k}.({_diffkeys(a[k], b[k])})")
                elif isinstance(a.get(k), list) and isinstance(b.get(k), list) and len(a[k]) == len(b[k]) and a[k] and isinstance(a[k][0], dict):
                    subs = sorted({_diffkeys(x, y) for x, y in zip(a[k], b[k]) if x != y})
                    out.append(f"{k}[].({'/'.join(subs)})")
                else:
                    out.append(str(k))
    else:
        out.append("value")
    return ",".join(out)


def _difftext(a, b):
    parts = []
    if isinstance(a, dict) and isinstance(b, dict):
        for k in sorted(set(a) | set(b)):
            if a.get(k) != b.get(k):
                parts.append(f"{k}: {json.dumps(a.get(k))[:200]} -> {json.dumps(b.get(k))[:200]}")
    return "; ".join(parts)[:1500]


CAMPAIGN = C08()
