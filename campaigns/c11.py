"""C11 - a displacement move moves only the chosen particle.

Observation points already present in the code: `criteria.evaluate` is entered right after
the move returned (post-move, pre-revert) - TapeCriteria snapshots there; a recording
operation (user-side Operation by delegation) keeps every result handed to the move.
"""
from __future__ import annotations

import numpy as np

from campaigns.history import HistoryCampaign
from simkit.world import Monitor, World


def _single_vector_op(op: dict) -> bool:
    t = op.get("type")
    if t in ("Ball", "Box", "Sphere"):
        return True
    if t == "sum":
        return all(_single_vector_op(x) for x in op["items"])
    if t == "mul":
        return _single_vector_op(op["item"])
    return False


class C11Monitor(Monitor):
    prop = "C11"

    def on_build(self, w):
        self.paths = {id(m): p for p, m in w.label_moves()}
        self.user_frozen = {}  # entry name -> rows the user labelled negative when he last configured the entry

    def on_user_edit(self, w, ed):
        rl = ed.get("relabel")
        if rl:
            self.user_frozen[rl["entry"]] = {i for i, x in enumerate(rl["labels"]) if x < 0}

    def _ctx(self, w, name, extra=""):
        cons = "+".join(sorted({c["type"] for c in w.sc["atoms"].get("constraints", [])})) or "none"
        return f"driver={w.sc['driver']}|move={w.move_cat(name)}|constraints={cons}" + (f"|{extra}" if extra else "")

    def on_trial(self, w, name, verdict, pre, post):
        from quansino.moves.displacement import CompositeDisplacementMove, DisplacementMove

        mv = w.mc.moves[name].move
        leaves = World.leaves_of(mv)
        if not leaves or any(type(lf) is not DisplacementMove for lf in leaves):
            return
        for lf in leaves:
            if id(lf) not in self.paths:  # an elementary move the package created itself
                self.paths = {id(m): p for p, m in w.label_moves()}
                break
        frozen = self.user_frozen.get(name)
        if frozen and w.crit_events and w.crit_events[0]["positions"].shape == pre["positions"].shape:
            moved_rows = set(np.nonzero(np.any(w.crit_events[0]["positions"] != pre["positions"], axis=1))[0].tolist())
            if moved_rows & frozen:
                self.violate(w, "negative_label_atom_moved", self._ctx(w, name, "labels=as_last_configured_by_user"),
                             f"rows {sorted(moved_rows & frozen)} carry a negative label in the array the user last set on the "
                             f"move(s) of this entry, and were displaced by {w.move_kind(name)}")
        if any(c["type"] != "FixAtoms" for c in w.sc["atoms"].get("constraints", [])):
            return
        composite = isinstance(mv, CompositeDisplacementMove)
        if not composite and type(mv) is not DisplacementMove:
            spec = next((e["move"] for i, e in enumerate(w.sc["moves"]) if e.get("name", f"m{i}") == name), None)
            if spec is not None and spec["type"] in ("sum", "mul"):
                # built from displacement moves with + and * only: this IS "a composite of n displacement moves",
                # whatever the parenthesisation; a plain CompositeMove neither excludes repeats nor reports a count
                self.violate(w, "composite_of_displacement_moves_without_guarantees", self._ctx(w, name),
                             f"{w.move_kind(name)} ({'right' if spec.get('assoc') == 'right' else 'left'}-nested) is a "
                             f"{type(mv).__name__}: no displaced_labels / number_of_moved_particles, members choose independently")
            return  # hand-built plain CompositeMove of displacement moves: no extra guarantees stated
        t = str(w.trial + w.trial_offset)
        vetoed = t in w.sc.get("faults", {}).get("veto", {})
        presel = w.sc.get("preselect", {}).get(t)
        kind = w.move_kind(name)
        cons = bool(w.sc["atoms"].get("constraints"))
        n = pre["n"]
        # eligible particles per leaf, from the labels the move held before the trial
        lab = {id(lf): pre["labels"][self.paths[id(lf)]] for lf in leaves}
        elig = {k: np.unique(v[v >= 0]) for k, v in lab.items()}
        w.result.cover.add(f"{w.sc['driver']}|{kind}|{verdict is None}|veto={int(vetoed)}|"
                           f"neg={int(any((v < 0).any() for v in lab.values()))}|cons={int(cons)}")
        if not w.crit_events:
            # the move reported failure: nothing may have changed
            if verdict is not None:
                self.violate(w, "criteria_not_reached_but_verdict", self._ctx(w, name), f"verdict {verdict}")
            if not np.array_equal(pre["positions"], post["positions"]):
                self.violate(w, "failed_move_changed_positions", self._ctx(w, name), "positions differ after a failed move")
            if not vetoed and all(len(e) for e in elig.values()) and not composite:
                self.violate(w, "eligible_particle_but_failure", self._ctx(w, name),
                             f"labels {lab[id(leaves[0])].tolist()} but the move reported failure without any veto")
            if composite and not vetoed and any(len(e) for e in elig.values()):
                self.violate(w, "eligible_particle_but_failure", self._ctx(w, name), "composite moved nothing without any veto")
            w.result.count("probe.failed_moves")
            return
        ev = w.crit_events[0]
        moved_pos = ev["positions"]
        if moved_pos.shape != pre["positions"].shape:
            return
        delta = moved_pos - pre["positions"]
        changed = set(np.nonzero(np.any(moved_pos != pre["positions"], axis=1))[0].tolist())
        if not composite:
            lf = leaves[0]
            L = lf.displaced_labels
            if L is None or int(L) < 0:
                self.violate(w, "displaced_label_invalid", self._ctx(w, name), f"displaced_labels={L!r} after a successful move")
                return
            L = int(L)
            if presel and presel["what"] == "displace" and len(elig[id(lf)]):
                want = int(elig[id(lf)][int(presel["pick"] * len(elig[id(lf)]))])
                if L != want:
                    self.violate(w, "preselected_target_ignored", self._ctx(w, name), f"pre-selected {want}, displaced {L}")
            group = set(np.nonzero(lab[id(lf)] == L)[0].tolist())
            if not group:
                self.violate(w, "displaced_label_has_no_atoms", self._ctx(w, name), f"label {L} not in {lab[id(lf)].tolist()}")
            if not changed <= group:
                self.violate(w, "other_atoms_moved", self._ctx(w, name),
                             f"{kind}: rows changed {sorted(changed)} but label {L} owns {sorted(group)} "
                             f"(labels {lab[id(lf)].tolist()})")
            neg = set(np.nonzero(lab[id(lf)] < 0)[0].tolist())
            if changed & neg:
                self.violate(w, "negative_label_atom_moved", self._ctx(w, name), f"rows {sorted(changed & neg)}")
            sink = w.op_sinks.get(id(lf))
            if sink and not cons and group:
                r = sink[-1]
                g = sorted(group)
                exp = np.broadcast_to(r, (len(g), 3)) if r.shape[0] in (1, len(g)) else None
                # (the displacement is read off as a difference of positions: rounding scales with their magnitude)
                tol = 1e-9 * max(1.0, float(np.max(np.abs(moved_pos), initial=0.0)))
                if exp is None or not np.allclose(delta[g], exp, rtol=0, atol=tol):
                    self.violate(w, "group_not_moved_by_common_result", self._ctx(w, name),
                                 f"{kind}: displacement of rows {g} is {delta[g].tolist()} but the operation returned {r.tolist()}")
                w.result.count("probe.common_result_checked")
            # Ball / Box / Sphere (and sums of them) return ONE vector: every atom of the group gets the same shift
            spec = next((e["move"] for i, e in enumerate(w.sc["moves"]) if e.get("name", f"m{i}") == name), None)
            if (not cons and len(group) > 1 and spec is not None and spec.get("type") == "disp" and spec.get("op")
                    and _single_vector_op(spec["op"])):
                g = sorted(group)
                tol = 1e-9 * max(1.0, float(np.max(np.abs(moved_pos), initial=0.0)))
                if not np.allclose(delta[g], delta[g][0], rtol=0, atol=tol):
                    self.violate(w, "group_not_moved_by_common_result", self._ctx(w, name),
                                 f"{kind}: the atoms of label {L} (rows {g}) were shifted by different vectors {delta[g].tolist()}; "
                                 f"this operation draws one displacement vector for the whole group")
                w.result.count("probe.rigid_shift_checked")
            w.result.count("probe.single_moves_judged")
            return
        # composite of displacement moves
        dl = list(mv.displaced_labels)
        moved = [int(x) for x in dl if x is not None]
        if len(dl) != len(mv.moves):
            self.violate(w, "composite_report_length", self._ctx(w, name), f"{len(dl)} entries for {len(mv.moves)} moves")
        if len(set(moved)) != len(moved):
            self.violate(w, "same_particle_displaced_twice", self._ctx(w, name), f"displaced_labels={dl}")
        if mv.number_of_moved_particles != len(moved):
            self.violate(w, "moved_count_wrong", self._ctx(w, name), f"{mv.number_of_moved_particles} vs {moved}")
        union = set()
        for sub, L in zip(mv.moves, dl):
            if L is not None:
                union |= set(np.nonzero(lab[id(sub)] == int(L))[0].tolist())
        if not changed <= union:
            self.violate(w, "other_atoms_moved", self._ctx(w, name),
                         f"{kind}: rows changed {sorted(changed)} but the displaced labels {dl} own {sorted(union)}")
        same_labels = all(np.array_equal(lab[id(mv.moves[0])], lab[id(s)]) for s in mv.moves)
        if not vetoed and same_labels:
            want = min(len(mv.moves), len(elig[id(mv.moves[0])]))
            if len(moved) != want:
                self.violate(w, "composite_moved_wrong_number", self._ctx(w, name),
                             f"{kind}: moved {len(moved)} particles, expected min({len(mv.moves)}, "
                             f"{len(elig[id(mv.moves[0])])} eligible)")
        w.result.count("probe.composite_moves_judged")


class C11(HistoryCampaign):
    prop = "C11"
    monitor_cls = C11Monitor
    world_opts = {"record_ops": True}
    flavor = {
        "drivers": ["Canonical", "Canonical", "HamiltonianCanonical", "Isobaric", "GrandCanonical", "GrandCanonical"],
        "calc_styles": ["caching", "stateless"],
        # FixCom couples all atoms by design (it shifts everything to keep the centre of mass), so the
        # "no other atom" clause is only meaningful without it; FixAtoms must never make others move
        "constraint_kinds": ["fixatoms"],
        "scales": ["moderate"], "constraints": 0.25, "arrays": 0.2, "composites": 0.5, "extended": 0.05,
        "p_force": [0.0, 0.5, 0.9], "p_veto": [0.0, 0.1, 0.3], "preselect": 0.3, "steps_max": 10,
    }
    rule = ("one evaluation = one generated deployment whose displacement trials are observed at criteria entry "
            "(post-move, pre-revert); label arrays are generated (atomic, molecular, gaps, shuffled, negatives) and, "
            "in grand-canonical runs, produced by the exchange history itself; distinct = (driver, move kind incl. "
            "operation, failed?, veto fired, negatives present, constraints present) tuples; non-trivial = at least "
            "one trial executed")
    assumptions = ["the recording operation is a user-side Operation delegating to the shipped one",
                   "the common-result clause is judged only without constraints (as the statement says)"]

    def generate(self, rnd, tier, index):
        sc = super().generate(rnd, tier, index)
        total = sum(s["n"] for s in sc["steps"])
        if sc["driver"] != "GrandCanonical" and total >= 2 and rnd.random() < 0.25:
            # between two runs the user freezes one particle by re-labelling the displacement move(s) he built
            cands = [e for e in sc["moves"] if self._disp_labels(e["move"]) is not None]
            if cands:
                e = rnd.choice(cands)
                lab = list(self._disp_labels(e["move"]))
                live = sorted({x for x in lab if x >= 0})
                if len(live) >= 2:
                    victim = rnd.choice(live)
                    sc["steps"] = [{"n": total // 2}, {"n": total - total // 2}]
                    sc["edits"] = [{"before_segment": 1, "relabel": {"entry": e["name"], "labels": [-1 if x == victim else x for x in lab]}}]
        return sc

    @staticmethod
    def _disp_labels(m):
        """The common label array of an entry made of displacement moves only (None otherwise)."""
        if m["type"] == "disp":
            return m["labels"]
        if m["type"] == "mul":
            return C11._disp_labels(m["item"])
        if m["type"] == "sum":
            labs = [C11._disp_labels(x) for x in m["items"]]
            return labs[0] if labs and all(x is not None and x == labs[0] for x in labs) else None
        return None

    def budget(self, tier):
        return {"runs": 6000, "wall_s": 170} if tier == "quick" else {"runs": 600000, "wall_s": 1500}


CAMPAIGN = C11()
