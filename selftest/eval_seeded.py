#!/venv/bin/python
"""Evaluate the seeded changes under /verif/seeded/<id>/ (patch.diff, demo.py, meta.json):
for each one, apply the patch to a scratch copy of /repo/src, (1) confirm the demonstration
fails with the change and passes without it, (2) run every claimed quick check against the
changed copy, (3) record which checks caught it in meta.json and regenerate seeded/SUMMARY.md.

usage: eval_seeded.py [<id> ...] [--own-only]
"""
import json, os, shutil, subprocess, sys, tempfile

HERE = os.path.dirname(os.path.dirname(os.path.abspath(__file__)))
SEEDED = os.path.join(HERE, "seeded")


def claimed():
    return [c["property_id"] for c in json.load(open(os.path.join(HERE, "MANIFEST.json")))["checks"]]


def run_demo(src, demo):
    env = dict(os.environ, PYTHONPATH=src)
    p = subprocess.run(["/venv/bin/python", demo], env=env, capture_output=True, text=True, timeout=900, cwd=os.path.dirname(demo))
    return p.returncode, (p.stdout + p.stderr)[-600:]


def evaluate(sid, props):
    d = os.path.join(SEEDED, sid)
    meta = json.load(open(os.path.join(d, "meta.json")))
    tmp = tempfile.mkdtemp(prefix="qseed_")
    try:
        shutil.copytree("/repo/src", os.path.join(tmp, "src"))
        base_rc, _ = run_demo(os.path.join(tmp, "src"), os.path.join(d, "demo.py"))
        p = subprocess.run(["git", "apply", "--directory", tmp, os.path.join(d, "patch.diff")], capture_output=True, text=True, cwd=tmp)
        if p.returncode != 0:
            p = subprocess.run(["patch", "-p1", "-s", "-i", os.path.join(d, "patch.diff")], cwd=tmp, capture_output=True, text=True)
            if p.returncode != 0:
                print(sid, "PATCH-FAILED", p.stdout, p.stderr)
                return
        mut_rc, mut_out = run_demo(os.path.join(tmp, "src"), os.path.join(d, "demo.py"))
        meta["demo"] = {"exit_unmodified": base_rc, "exit_with_change": mut_rc}
        out = os.path.join(tmp, "out")
        os.makedirs(out)
        env = dict(os.environ, VERIF_REPO_SRC=os.path.join(tmp, "src"), VERIF_OUT=out)
        results = {}
        for prop in props:
            r = subprocess.run(["/venv/bin/python", os.path.join(HERE, "check.py"), prop, "--tier", "quick"], env=env,
                               capture_output=True, text=True, cwd=HERE)
            sigs = [l.split("violation signature: ")[1].split("  (")[0] for l in r.stdout.splitlines() if l.startswith("violation signature")]
            results[prop] = {"exit": r.returncode, "signatures": sigs[:6]}
            print(f"{sid} {prop} exit={r.returncode} {sigs[:2]}")
        meta.setdefault("checks", {}).update(results)
        meta["caught_by"] = sorted(p for p, r in meta["checks"].items() if r["exit"] == 1)
        json.dump(meta, open(os.path.join(d, "meta.json"), "w"), indent=1)
    finally:
        shutil.rmtree(tmp, ignore_errors=True)


def summary():
    rows = []
    for sid in sorted(os.listdir(SEEDED)):
        mp = os.path.join(SEEDED, sid, "meta.json")
        if not os.path.exists(mp):
            continue
        m = json.load(open(mp))
        own = m.get("property")
        checks = m.get("checks", {})
        caught = m.get("caught_by", [])
        rows.append(f"| {sid} | {own} | {m.get('summary', '')[:140]} | {m.get('needs', '')[:120]} | "
                    f"{'yes' if own in caught else 'NO'} ({', '.join(checks.get(own, {}).get('signatures', [])[:1])[:90]}) | "
                    f"{', '.join(c for c in caught if c != own) or '-'} |")
    notes = {}
    if os.path.exists(os.path.join(SEEDED, "NOTES.json")):
        notes = json.load(open(os.path.join(SEEDED, "NOTES.json"))).get("first_pass", {})
    rows = [r + f" {notes.get(r.split('|')[1].strip(), '')} |" for r in rows]
    with open(os.path.join(SEEDED, "SUMMARY.md"), "w") as f:
        f.write("# Seeded changes (from independent sub-agents) and the checks that catch them\n\n"
                "Each directory holds patch.diff, demo.py (fails with the change, passes without) and meta.json.\n"
                "Evaluated with `selftest/eval_seeded.py` (quick tier, VERIF_SEED=0, scratch copy of /repo/src).\n\n"
                "| id | property | change | needs | caught by its own check (first signature) | other checks that fire | first pass / what was added |\n|---|---|---|---|---|---|---|\n")
        f.write("\n".join(rows) + "\n")
    print("\n".join(rows))


if __name__ == "__main__":
    args = [a for a in sys.argv[1:] if not a.startswith("--")]
    ids = args or sorted(x for x in os.listdir(SEEDED) if os.path.isdir(os.path.join(SEEDED, x)) and not x.startswith("_"))
    for sid in ids:
        meta = json.load(open(os.path.join(SEEDED, sid, "meta.json")))
        props = [meta["property"]] if "--own-only" in sys.argv else claimed()
        if "--family" in sys.argv:
            fam = ["C02", "C03", "C04", "C05", "C06", "C07", "C11", "C12", "C15", "C20"]
            props = [p for p in props if p in fam or p == meta["property"]]
        if "--no-c01" in sys.argv:
            props = [p for p in props if p != "C01" or meta["property"] == "C01"]
        evaluate(sid, props)
    summary()
