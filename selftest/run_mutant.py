#!/venv/bin/python
"""Sensitivity self-test: run checks against a mutated copy of /repo/src.

usage: run_mutant.py <patch.diff> <Cxx> [<Cxx> ...] [--tier quick]
The patch is applied (patch -p1) to a scratch copy of /repo (src only) under /tmp, the checks
run with VERIF_REPO_SRC pointing at it and VERIF_OUT at a scratch output dir; everything is
removed afterwards.  Prints one line per property: CAUGHT (exit 1) / MISSED (exit 0) / other.
"""
import os, shutil, subprocess, sys, tempfile

def main():
    args = [a for a in sys.argv[1:] if not a.startswith("--")]
    tier = "quick"
    if "--tier" in sys.argv:
        tier = sys.argv[sys.argv.index("--tier") + 1]
        args = [a for a in args if a != tier]
    patch, props = os.path.abspath(args[0]), args[1:]
    tmp = tempfile.mkdtemp(prefix="qmut_")
    try:
        shutil.copytree("/repo/src", os.path.join(tmp, "src"))
        p = subprocess.run(["patch", "-p1", "-s", "-i", patch], cwd=tmp, capture_output=True, text=True)
        if p.returncode != 0:
            print("PATCH-FAILED", p.stdout, p.stderr)
            return 2
        out = os.path.join(tmp, "out")
        os.makedirs(out)
        env = dict(os.environ, VERIF_REPO_SRC=os.path.join(tmp, "src"), VERIF_OUT=out)
        rc_all = 0
        for prop in props:
            r = subprocess.run(["/venv/bin/python", "/verif/check.py", prop, "--tier", tier], env=env,
                               capture_output=True, text=True, cwd="/verif")
            verdict = {0: "MISSED", 1: "CAUGHT"}.get(r.returncode, f"EXIT{r.returncode}")
            sigs = [l for l in r.stdout.splitlines() if l.startswith("violation signature")]
            print(f"{os.path.basename(patch)} {prop} {verdict}")
            for s in sigs[:4]:
                print("   ", s[:220])
            if r.returncode not in (0, 1):
                print(r.stdout[-1500:], r.stderr[-1500:])
            rc_all |= (r.returncode != 1)
        return rc_all
    finally:
        shutil.rmtree(tmp, ignore_errors=True)

if __name__ == "__main__":
    sys.exit(main())
