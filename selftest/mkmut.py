#!/venv/bin/python
"""mkmut.py <name> <file relative to /repo> <old> <new>  -> selftest/mutants/<name>.diff (unified, -p1)"""
import difflib, os, sys
name, rel, old, new = sys.argv[1:5]
src = open(os.path.join("/repo", rel)).read()
assert src.count(old) >= 1, f"pattern not found in {rel}"
dst = src.replace(old, new, 1)
diff = difflib.unified_diff(src.splitlines(True), dst.splitlines(True), "a/" + rel, "b/" + rel)
out = os.path.join(os.path.dirname(os.path.abspath(__file__)), "mutants", name + ".diff")
open(out, "w").writelines(diff)
print("wrote", out)
