#!/venv/bin/python
"""Stub fidelity: SimFile vs real files, SimGen vs plain Generator, NeighbourListCalc vs ASE LJ
behaviour class.  Exit 0 if all agree."""
import os, random, shutil, sys, tempfile

sys.path.insert(0, os.path.dirname(os.path.dirname(os.path.abspath(__file__))))
from simkit import core

core.setup_imports()
import numpy as np
from simkit.simfs import SimDisk
from simkit.rngseam import SimGen


def simfile_vs_real(nseq=400):
    tmp = tempfile.mkdtemp(prefix="qfid_")
    bad = 0
    try:
        for i in range(nseq):
            rnd = random.Random(i)
            mode = rnd.choice(["a", "w"])
            path = os.path.join(tmp, f"f{i}")
            if rnd.random() < 0.5:  # pre-existing content
                with open(path, "w") as f:
                    f.write("old content\n" * rnd.randint(1, 3))
                pre = open(path).read()
            else:
                pre = ""
            disk = SimDisk(bufsize=rnd.choice([4, 64, 8192]))
            if pre:
                disk.open("f", "w").write(pre)
                disk.files["f"].flush()
            sim = disk.open("f", mode)
            real = open(path, mode)
            for _ in range(rnd.randint(1, 25)):
                op = rnd.choice(["write", "write", "write", "flush", "seek0", "truncate", "rewrite", "tell"])
                if op == "write":
                    s = "".join(rnd.choice("abcdef\n") for _ in range(rnd.randint(0, 30)))
                    sim.write(s); real.write(s)
                elif op == "flush":
                    sim.flush(); real.flush()
                elif op == "seek0":
                    sim.seek(0); real.seek(0)
                elif op == "truncate":
                    sim.truncate(); real.truncate()
                elif op == "rewrite":
                    sim.seek(0); real.seek(0); sim.truncate(); real.truncate()
                    s = "X" * rnd.randint(0, 40)
                    sim.write(s); real.write(s); sim.flush(); real.flush()
                elif op == "tell":
                    a, b = sim.tell(), real.tell()
                    if a != b:
                        bad += 1; print("tell differs", i, mode, a, b); break
                if op in ("flush", "seek0", "truncate", "rewrite", "tell"):
                    if open(path).read() != sim.durable:
                        bad += 1; print("content differs", i, mode, op, repr(open(path).read()[-40:]), repr(sim.durable[-40:])); break
            sim.close(); real.close()
            if open(path).read() != sim.durable:
                bad += 1; print("final content differs", i, mode)
    finally:
        shutil.rmtree(tmp, ignore_errors=True)
    return bad, nseq


def simgen_vs_plain(n=200):
    from numpy.random import PCG64, Generator
    bad = 0
    for i in range(n):
        a, b = SimGen(PCG64(i)), Generator(PCG64(i))
        rnd = random.Random(i)
        for _ in range(20):
            op = rnd.choice(["random", "uniform", "choice", "normal", "choicep"])
            if op == "random":
                sz = rnd.choice([None, 3, (2, 3)])
                x, y = a.random(sz), b.random(sz)
            elif op == "uniform":
                x, y = a.uniform(-1, 1, (1, 3)), b.uniform(-1, 1, (1, 3))
            elif op == "choice":
                x, y = a.choice(np.arange(7), size=3, replace=False), b.choice(np.arange(7), size=3, replace=False)
            elif op == "choicep":
                x, y = a.choice(["u", "v", "w"], p=[0.2, 0.3, 0.5]), b.choice(["u", "v", "w"], p=[0.2, 0.3, 0.5])
            else:
                x, y = a.standard_normal((4, 3)), b.standard_normal((4, 3))
            if not np.array_equal(np.asarray(x), np.asarray(y)):
                bad += 1; print("SimGen stream differs", i, op); break
        if a.bit_generator.state != b.bit_generator.state:
            bad += 1
    return bad, n


if __name__ == "__main__":
    b1, n1 = simfile_vs_real()
    b2, n2 = simgen_vs_plain()
    print(f"SimFile vs real file: {n1 - b1}/{n1} op sequences identical; SimGen vs Generator: {n2 - b2}/{n2} identical streams")
    sys.exit(1 if (b1 or b2) else 0)
