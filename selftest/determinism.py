#!/venv/bin/python
"""Determinism self-test: for every claimed property, a sample of run indices is executed
twice in fresh interpreters under different PYTHONHASHSEED values (and different process
placement); the digests of everything the run produced must be identical.

usage: determinism.py [--n 6] [--props C03,C16] [--seeds 0,7]
Exit 0 if all agree; prints every mismatch."""
import json, os, subprocess, sys
from concurrent.futures import ThreadPoolExecutor

HERE = os.path.dirname(os.path.dirname(os.path.abspath(__file__)))


def one(prop, seed, idx, hashseed):
    env = dict(os.environ, PYTHONHASHSEED=str(hashseed), VERIF_SEED=str(seed))
    p = subprocess.run(["/venv/bin/python", os.path.join(HERE, "check.py"), prop, "--one", str(idx)], env=env,
                       capture_output=True, text=True, timeout=1800, cwd=HERE)
    for line in p.stdout.splitlines():
        if line.startswith("DIGEST"):
            return line.split()[1]
    return "ERROR:" + p.stderr[-300:]


def main():
    args = sys.argv[1:]
    n = int(args[args.index("--n") + 1]) if "--n" in args else 6
    props = args[args.index("--props") + 1].split(",") if "--props" in args else [
        c["property_id"] for c in json.load(open(os.path.join(HERE, "MANIFEST.json")))["checks"]]
    seeds = [int(x) for x in args[args.index("--seeds") + 1].split(",")] if "--seeds" in args else [0, 7]
    jobs = []
    for prop in props:
        idxs = list(range(n)) if prop != "C01" else [0, 3]
        for seed in seeds:
            for idx in idxs:
                jobs.append((prop, seed, idx))
    bad = 0
    with ThreadPoolExecutor(max_workers=16) as ex:
        futs = {j: (ex.submit(one, *j, 0), ex.submit(one, *j, 1 + 31 * (j[2] + 1)), ex.submit(one, *j, "random")) for j in jobs}
        for j, fs in futs.items():
            ds = [f.result() for f in fs]
            if len(set(ds)) != 1 or ds[0].startswith("ERROR"):
                bad += 1
                print("MISMATCH", j, ds)
    print(f"determinism: {len(jobs) - bad}/{len(jobs)} (property, VERIF_SEED, run index) triples gave identical digests in "
          f"3 fresh interpreters with different PYTHONHASHSEED")
    return 1 if bad else 0


if __name__ == "__main__":
    sys.exit(main())
