#!/venv/bin/python
"""Regenerate MANIFEST.json from the table below (keeps it schema-valid at all times)."""
import json, os

HERE = os.path.dirname(os.path.abspath(__file__))

CLAIMED = {
    "C16": dict(
        level="fault_enumeration",
        text=("Every file-operation index of every generated deployment is used as a crash point, in four "
              "flavours (clean death, torn buffer, death inside the operation, failing write), and the "
              "durable bytes are judged against the prefix / one-JSON-document invariants; after every "
              "completed observer call the same bytes are checked for completeness. Deployments themselves "
              "(driver, observers, modes, histories) are sampled by seed. Seeded sub-faults per deployment: a logged "
              "quantity raising inside an observer call, the calculator raising inside a step under run(), a resuming "
              "process dying at each of its own operations, a second execution over stale files, run-close-run."),
        note=("Process-death model with OS-level durability (no power loss); SimFile is validated against real "
              "files; calculators are analytic stubs; deployments are sampled, crash points per deployment "
              "are exhaustive."),
        technique="deterministic simulation on a simulated disk; exhaustive crash-point enumeration per run + seeded deployments",
        design="§4 C16"),
    "C03": dict(
        level="exploration",
        text=("Seeded search over generated deployments (every MC driver, move/composite/operation grammar, label "
              "styles, per-atom arrays, constraints, calculator styles) under forced accept/reject, veto-all/veto-some "
              "and pre-selected-target faults; every non-accepted trial is compared bitwise with the pre-trial snapshot "
              "and sampled step boundaries are cross-checked against a twin rebuilt from public state."),
        note="Sampling, not proof; verdict faults enter through a user-side criteria wrapping the real one; analytic calculators.",
        technique="deterministic simulation at trial granularity with verdict/veto fault tapes; snapshot + twin-continuation oracles",
        design="§4 C03"),
    "C04": dict(
        level="exploration",
        text=("Same history campaign with four calculator styles (stateless, ASE caching base class, neighbour-list stub, "
              "ASE's real LennardJones): after every trial the remembered energy/positions/cell, the cached calculator "
              "result and the evaluation counter are compared with an independent from-scratch evaluation; a real Logger "
              "reports the energy each step in half of the runs."),
        note="Reference energy = analytic potential or a fresh LennardJones instance; evaluation counts judged for caching styles only, Hamiltonian moves exempt.",
        technique="deterministic simulation with calculator-style fault dimension; independent re-evaluation oracle after every trial",
        design="§4 C04"),
    "C05": dict(
        level="exploration",
        text=("Grand-canonical deployments driven through long forced accept/reject histories of insertions, deletions and "
              "displacements; a uid-keyed reference model of labels, particles and the particle counter is updated from "
              "the accepted history and compared with every label-bearing (sub)move after each trial."),
        note="Model-based sampling; identity tracked by a harness-owned per-atom array; composites with + and *, repeated objects, default labels included.",
        technique="deterministic simulation + executable reference model (uid -> label / particle) checked after every trial",
        design="§4 C05"),
    "C02": dict(
        level="exploration",
        text=("Every acceptance decision taken in generated deployments of all criteria (canonical, Hamiltonian, isobaric, "
              "isotension, grand canonical) is refereed against ln u < ln A evaluated independently in log space; the "
              "uniform comes from the driver's own generator through a recording seam and is scripted to 0, A(1-1e-6), "
              "A(1+1e-6) and 1-2^-53 on a tape; energy scales are randomised so |dE|/kT reaches far beyond 709 in both "
              "directions; parameters are changed between trials."),
        note="Energies recomputed by the analytic potential from the two configurations; boundary-indeterminate decisions are counted, not judged; multi-particle exchanges and user criteria are not judged.",
        technique="deterministic simulation with generator and calculator seams; executable reference rule checked on every decision of the history campaign",
        design="§4 C02"),
    "C11": dict(
        level="exploration",
        text=("Displacement trials (single and composite, all operations, generated and history-produced label arrays) "
              "are observed at criteria entry, i.e. after the move and before a possible revert, and compared with the "
              "pre-trial snapshot and with the result returned by a recording operation."),
        note="Observation uses the two call-outs the code already makes (check_move, criteria.evaluate); FixCom runs are excluded from the no-other-atom clause because the constraint itself shifts every atom.",
        technique="deterministic simulation; post-move/pre-revert snapshot oracle at the criteria seam",
        design="§4 C11"),
    "C12": dict(
        level="exploration",
        text=("FixAtoms / FixCom / FixRot deployments under displacement, composite, Hamiltonian (random dt, steps) and "
              "force-bias (random delta, T) moves through forced accept/reject/veto histories; fixed rows bitwise, "
              "centre of mass, angular and linear momentum checked at criteria entry and after every trial or step, "
              "and again in a continuation rebuilt from the saved state (to_dict -> JSON -> from_dict) at the end of the history."),
        note="FixAtoms+FixCom is not generated (ASE applies constraints sequentially, one undoes the other by construction); FixRot only on non-periodic clusters.",
        technique="deterministic simulation with constraint dimension; invariants checked every trial/step",
        design="§4 C12"),
    "C20": dict(
        level="exploration",
        text=("Bare protocol-only moves and criteria with an attribute-access log are run in all six Monte Carlo drivers, "
              "alone and next to shipped moves, with truthy/falsy non-bool results, under accept/reject histories; access "
              "log, criteria routing, serialization and atom-count / cell notifications are checked per trial."),
        note="Only accesses from outside the bare object are logged; notifications are compared with the uid diff / cell of the accepted trial.",
        technique="deterministic simulation with strict user plug-ins at the protocol seam; access-log and notification-log oracles",
        design="§4 C20"),
    "C07": dict(
        level="fault_enumeration",
        text=("For every generated deployment the process is made to die at EVERY completed write of the restart observer "
              "(all restart points k are enumerated); the durable bytes are loaded the documented way (read_json -> "
              "Cls.from_dict -> re-attach calculator) and the resumed run's per-step trace must equal the uninterrupted "
              "run's suffix (histories, labels, counters, integer arrays exactly; floating-point arrays within rounding, as a "
              "restart file cannot carry the calculator's cache). A sample of recoveries happens in a fresh interpreter with a random first import and "
              "another PYTHONHASHSEED. Deployments (drivers, move tables, masks, composites, molecular exchange) are sampled."),
        note="Restart points per deployment exhaustive, deployments sampled; calculators are analytic and re-attached by the harness as the documentation says; callables excepted.",
        technique="deterministic simulation with crash-restart fault at every restart point; uninterrupted run as oracle",
        design="§4 C07"),
    "C08": dict(
        level="exploration",
        text=("Every serializable class found by introspection is configured away from its defaults (constructor parameters "
              "and documented tunables, composites nested to depth 3), written as JSON and rebuilt by registered name in a "
              "different process: in a fresh interpreter for each public module imported first (fault: import order, hash "
              "seed), and in-process for thousands of random variants; type, re-serialized dictionary and attribute values "
              "must match. Driver-level settings go the same way for all eight drivers."),
        note="The class x parameter sweep is enumeration; the simulated part is recovery by another process with a chosen initialisation order. Parameters without a value rule are reported, not judged.",
        technique="crash-and-recover simulation across interpreter boundaries with import-order fault; original object as oracle",
        design="§4 C08"),
    "C06": dict(
        level="exploration",
        text=("Each generated scenario (all seven drivers, seeds incl. 0, 2^32-1, 2^63, 2^64-1) is executed twice in one "
              "process with the process-global generators reseeded and consumed between all steps with different junk, "
              "once with seed+1, and for a sample once more in a fresh interpreter under another PYTHONHASHSEED; event "
              "digests (moves, verdicts, configurations, log and trajectory bytes) must agree / differ accordingly and "
              "the global generators' states must be untouched by every stretch of driver code."),
        note="Sampling; digest covers trajectories, move sequences, accept/reject histories and log/trajectory bytes; numpy legacy global and Python random are the globals examined.",
        technique="deterministic twin execution with global-generator fault injection and fresh-interpreter replay",
        design="§4 C06"),
    "C09": dict(
        level="exploration",
        text=("The driver's own scheduler is run on generated move tables (intervals, zero weights, minimum counts, cycles "
              "0-8, step offsets, over-commit attempts) for 50-2000 steps each; every step is checked against the exact "
              "clauses and the free slots against the multinomial law of the weights (chi-square and dispersion tests "
              "with a confirmation stage)."),
        note="Exact clauses are invariants per step; the proportionality/independence clause is statistical with a two-stage decision (false-alarm probability below 1e-9 per table).",
        technique="deterministic simulation of the scheduler with a reference scheduler model + seeded statistical test with confirmation",
        design="§4 C09"),
    "C13": dict(
        level="exploration",
        text=("The real force-bias step runs against a calculator returning prescribed forces (zero, +-1e-300, moderate, "
              "clipped, +-1e300, mixed) with scalar and per-coordinate delta, T over seven decades, masses and mass "
              "powers; bound, zeta range, single advance, evaluation count and termination (draw budget at the generator "
              "seam) are invariants of every step; zeta samples are compared with the closed-form Bal-Neyts CDF (KS with "
              "confirmation stage)."),
        note="Density clause for |gamma| > 1e-6; KS resolves distribution errors above ~2-7% (D > 2x the alpha=1e-9 critical value after 4x6000 samples).",
        technique="deterministic simulation with calculator and generator seams; per-step invariants + seeded KS test with confirmation",
        design="§4 C13"),
    "C15": dict(
        level="exploration",
        text=("Each deployment (Monte Carlo and force-bias drivers, recording observers with positive and negative intervals, "
              "real logger/trajectory/restart observers on simulated files) is executed as a generated composition of "
              "run/srun/irun calls with zero-length calls, and as a single run(n) twin with the same seed; call schedule, "
              "header placement, steps performed per call, final atoms, counter and all file bytes are compared."),
        note="Sampling over split shapes and entry points; files are SimFiles; twin with the same seed is the oracle for 'splitting changes nothing'.",
        technique="deterministic twin execution with run-splitting fault (F16) and reference call-schedule model",
        design="§4 C15"),
    "C01": dict(
        level="exploration",
        text=("Long seeded chains of the real drivers on analytically solvable systems (harmonic particles under every "
              "shipped displacement proposal incl. composites and Hamiltonian moves; rigid dipole in a field under rotation "
              "proposals; isobaric ideal gas; grand-canonical ideal gas of atoms and diatomics), 16 independent chains per "
              "scenario, observables read after every step of srun(); Student t over chain means with a second, 4x longer "
              "confirmation stage and effect floors, so sampling noise cannot become an alarm."),
        note="Statistical: quick resolves biases of roughly 4-10 %, thorough about 2 %; analytic calculators; a configuration-independent veto callable is injected as a neutral perturbation.",
        technique="seeded simulation of whole Markov chains with analytic ensemble averages as oracle (two-stage t-test over independent chains)",
        design="§4 C01"),
}

NOT_APPLICABLE = {
    "C10": "pure function of (arguments, generator state): no schedule, fault, history or I/O for a simulator to control; its chain-level consequence is decided under C01",
    "C14": "numerical analysis of one integrator call / one momentum draw; no schedule or fault; the in-loop clause (kinetic energy of fresh momenta in the acceptance test) is covered by the C02 reference rule",
    "C17": "finite algebra of expression trees without randomness, time or I/O: enumeration/model checking territory, not simulation",
    "C18": "a scalar map from variance to delta: no schedule, fault or history",
    "C19": "array utilities quantified over arbitrary index sets; nothing for a simulator to schedule (reinsertion on rejected deletions is exercised under C03)",
}

PENDING = ["C01", "C02", "C03", "C04", "C05", "C06", "C07", "C08", "C09", "C11", "C12", "C13", "C15", "C20"]


def main():
    checks = []
    for pid, c in sorted(CLAIMED.items()):
        checks.append({
            "property_id": pid,
            "quick_cmd": f"/venv/bin/python check.py {pid} --tier quick",
            "thorough_cmd": f"/venv/bin/python check.py {pid} --tier thorough",
            "evidence_file": f"/verif/evidence/{pid}.json",
            "replay_cmd_template": f"/venv/bin/python check.py {pid} --replay {{path}}",
            "engine": "simkit",
            "level_claimed": {"category": c["level"], "text": c["text"], "design_ref": c["design"]},
            "level_note": c["note"],
            "technique": c["technique"],
        })
    na = [{"property_id": k, "reason": v} for k, v in sorted(NOT_APPLICABLE.items())]
    for pid in PENDING:
        if pid not in CLAIMED:
            na.append({"property_id": pid, "reason": "not claimed yet: its simulation campaign (DESIGN.md §4) is still being built in this round"})
    na.sort(key=lambda d: d["property_id"])
    manifest = {
        "version": 1,
        "setup_cmd": "/venv/bin/python -c \"import sys; sys.path.insert(0,'/verif'); import simkit.core, simkit.engine, simkit.world; print('simkit ok')\"",
        "hooks": {
            "guard": "QUANSINO_VERIF",
            "enable": "no hook exists in /repo: every seam the simulator needs is an existing attribute, constructor argument or protocol (DESIGN.md §1); checks set QUANSINO_VERIF=1 for the record and import quansino from /repo/src of the working tree",
            "baseline_off_cmd": "cd /repo && env -u QUANSINO_VERIF /venv/bin/python -m pytest -q -p no:cacheprovider --timeout=900 -n 8",
            "source_commits": [],
            "add_only": True,
        },
        "engines": [{
            "name": "simkit",
            "path": "/verif/simkit",
            "serves_properties": sorted(CLAIMED),
            "kind_free_text": "in-process deterministic simulator: seeded scenario generator, stepping loop at trial granularity, simulated disk, generator/calculator/criteria seams, fault tapes, signature-based shrinking and replay",
        }],
        "checks": checks,
        "not_applicable": na,
        "notes": "Entry point: /venv/bin/python check.py <Cxx> --tier quick|thorough [--replay FILE]; VERIF_SEED decides every choice. Exit 0 held / 1 VIOLATION / 2 harness error / 3 inconclusive. known_findings.json lists recorded defects (KNOWN-FINDING lines, exit 0).",
    }
    with open(os.path.join(HERE, "MANIFEST.json"), "w") as f:
        json.dump(manifest, f, indent=1)
    print("MANIFEST.json written:", len(checks), "checks,", len(na), "not_applicable")


if __name__ == "__main__":
    main()
