#!/bin/bash
# run every claimed quick (or thorough) check in sequence; prints one summary line each
tier=${1:-quick}
cd /verif
for p in $(/venv/bin/python -c "import json; print(' '.join(c['property_id'] for c in json.load(open('MANIFEST.json'))['checks']))"); do
  /venv/bin/python check.py $p --tier $tier > /tmp/run_all_$p.log 2>&1; rc=$?
  echo "$p exit=$rc $(tail -1 /tmp/run_all_$p.log | cut -c1-160)"
done
