#!/bin/bash
# run every claimed quick (or thorough) check in sequence from the directory this script lives in;
# prints one summary line each.  VERIF_OUT (optional) redirects evidence/ and replays/.
tier=${1:-quick}
here="$(cd "$(dirname "$0")" && pwd)"
cd "$here"
for p in $(/venv/bin/python -c "import json; print(' '.join(c['property_id'] for c in json.load(open('MANIFEST.json'))['checks']))"); do
  log=$(mktemp /tmp/run_all_${p}_XXXX.log)
  /venv/bin/python check.py $p --tier $tier > $log 2>&1; rc=$?
  echo "$p exit=$rc $(tail -1 $log | cut -c1-160)"
  grep -h "^violation signature\|^VIOLATION\|HARNESS-ERROR\|INCONCLUSIVE" $log | cut -c1-300
done
