"""Kernel pieces shared by every campaign: seed derivation, violations, exception
ownership, digests.

Nothing in here draws random numbers or reads a clock.
"""
from __future__ import annotations

import hashlib
import os
import sys
import traceback
from dataclasses import dataclass, field

VERIF_DIR = os.path.dirname(os.path.dirname(os.path.abspath(__file__)))
REPO_SRC = os.environ.get("VERIF_REPO_SRC", "/repo/src")
# evidence/ and replays/ go here (overridden by the mutant self-test so it never touches committed files)
OUT_DIR = os.environ.get("VERIF_OUT", VERIF_DIR)


def setup_imports() -> None:
    """Make `import quansino` resolve to the working tree under test."""
    if REPO_SRC not in sys.path:
        sys.path.insert(0, REPO_SRC)
    for var in ("OMP_NUM_THREADS", "OPENBLAS_NUM_THREADS", "MKL_NUM_THREADS"):
        os.environ.setdefault(var, "1")
    # the guard for hooks in /repo (none are needed at present, see DESIGN.md)
    os.environ.setdefault("QUANSINO_VERIF", "1")


def derive(*parts) -> int:
    """One integer from the tuple (VERIF_SEED, property, tier, run index, purpose)."""
    text = "\x1f".join(str(p) for p in parts).encode()
    return int.from_bytes(hashlib.sha256(text).digest()[:8], "big")


class Digest:
    """Order-sensitive SHA-256 over the event log of one run."""

    def __init__(self) -> None:
        self._h = hashlib.sha256()
        self.n = 0

    def add(self, *items) -> None:
        for it in items:
            if isinstance(it, bytes | bytearray):
                b = bytes(it)
            elif hasattr(it, "tobytes"):
                b = str(it.dtype).encode() + str(it.shape).encode() + it.tobytes()
            else:
                b = repr(it).encode()
            self._h.update(len(b).to_bytes(8, "big"))
            self._h.update(b)
        self.n += 1

    def hex(self) -> str:
        return self._h.hexdigest()


@dataclass
class Violation:
    prop: str
    invariant: str
    context: str  # component context that distinguishes this failure
    detail: str = ""
    at: str = ""  # where in the run (event number etc.); not part of the signature
    data: dict = field(default_factory=dict)  # machine-usable details for shrinking

    @property
    def signature(self) -> str:
        return f"{self.prop}|{self.invariant}|{self.context}"

    def to_json(self) -> dict:
        return {
            "signature": self.signature,
            "prop": self.prop,
            "invariant": self.invariant,
            "context": self.context,
            "detail": self.detail[:2000],
            "at": self.at,
            "data": self.data,
        }


class HarnessError(Exception):
    """Something went wrong in /verif code; never a verdict."""


# --------------------------------------------------------------------------------------
# exception ownership: which property promises that this code path does not raise
# --------------------------------------------------------------------------------------

_OWNER_RULES = [
    # (path fragment, function names or None for any, owner)
    ("/verif/simkit/calcs.py", None, "C04"),
    ("ase/calculators/", None, "C04"),
    ("ase/neighborlist", None, "C04"),
    ("quansino/mc/criteria.py", None, "C02"),
    ("quansino/io/", None, "C16"),
    ("ase/io/", None, "C16"),
    ("quansino/utils/atoms.py", ("reinsert_atoms",), "C03"),
    ("quansino/mc/contexts.py", ("revert_state",), "C03"),
    ("quansino/mc/", ("revert_state",), "C03"),
    ("quansino/mc/gcmc.py", ("save_state",), "C05"),
    ("quansino/moves/", ("on_atoms_changed",), "C05"),
    ("quansino/moves/exchange.py", None, "C05"),
    ("quansino/mc/core.py", ("yield_moves", "add_move"), "C09"),
    ("quansino/moves/displacement.py", None, "C11"),
    ("quansino/mc/fbmc.py", None, "C13"),
    ("quansino/registry.py", None, "C08"),
]


def classify_exception(exc: BaseException) -> dict:
    """Return {'type','where','owner','harness','text'} for an escaped exception."""
    frames = traceback.extract_tb(exc.__traceback__)
    owner = None
    where = None
    harness = False
    # innermost first
    for fr in reversed(frames):
        fn = fr.filename
        if where is None and "/quansino/" in fn:
            where = f"{os.path.basename(fn)}:{fr.name}"
        if owner is None:
            for frag, names, own in _OWNER_RULES:
                if frag in fn and (names is None or fr.name in names):
                    owner = own
                    break
    if frames:
        inner = frames[-1].filename
        if inner.startswith(VERIF_DIR) and "/simkit/calcs.py" not in inner and not any(
            "/quansino/" in f.filename or "/ase/" in f.filename for f in frames
        ):
            harness = True
    if where is None and frames:
        where = f"{os.path.basename(frames[-1].filename)}:{frames[-1].name}"
    return {
        "type": type(exc).__name__,
        "where": where or "?",
        "owner": owner,
        "harness": harness,
        "text": "".join(traceback.format_exception(type(exc), exc, exc.__traceback__))[-3000:],
    }


@dataclass
class RunResult:
    violations: list = field(default_factory=list)  # list[Violation]
    stats: dict = field(default_factory=dict)  # counters (ints)
    cover: set = field(default_factory=set)  # coverage tuples as strings
    digest: str = ""
    foreign: list = field(default_factory=list)  # foreign exceptions (not ours to judge)
    harness_error: str | None = None
    notes: list = field(default_factory=list)  # free-form strings for the evidence file

    def count(self, key: str, n: int = 1) -> None:
        self.stats[key] = self.stats.get(key, 0) + n

    def pack(self) -> dict:
        return {
            "violations": [v.to_json() for v in self.violations],
            "stats": self.stats,
            "cover": sorted(self.cover),
            "digest": self.digest,
            "foreign": self.foreign,
            "harness_error": self.harness_error,
            "notes": self.notes[:20],
        }
