"""Scenario generators (the move-table grammar of DESIGN.md 2.5 and the worlds around it).

All choices come from the `random.Random` handed in; scenarios are plain JSON.
"""
from __future__ import annotations

import math
import random

SPECIES = [1, 8, 18, 29, 6]


FULL_PRECISION = 0.3  # share of generated numbers that are not short decimals (lossy serialization must show)


def rfloat(rnd, lo, hi, nd=6):
    v = rnd.uniform(lo, hi)
    return v if rnd.random() < FULL_PRECISION else round(v, nd)


def logu(rnd, lo, hi):
    v = math.exp(rnd.uniform(math.log(lo), math.log(hi)))
    return v if rnd.random() < FULL_PRECISION else float(f"{v:.6g}")


def gen_cell(rnd: random.Random, triclinic: float = 0.4, lo=5.0, hi=9.0, lefthanded: float = 0.1):
    cell = _gen_cell_rh(rnd, triclinic, lo, hi)
    if rnd.random() < lefthanded:
        # a left-handed triad (negative determinant) is a legal ASE cell with a positive volume
        if rnd.random() < 0.5:
            cell[0], cell[1] = cell[1], cell[0]
        else:
            k = rnd.randrange(3)
            cell[k] = [-x for x in cell[k]]
    return cell


def _gen_cell_rh(rnd: random.Random, triclinic: float, lo, hi):
    a, b, c = (rfloat(rnd, lo, hi, 3) for _ in range(3))
    if rnd.random() < triclinic:
        s = lambda: rfloat(rnd, -0.25, 0.25, 3)  # noqa: E731
        return [[a, 0.0, 0.0], [s() * a, b, 0.0], [s() * a, s() * b, c]]
    if rnd.random() < 0.5:
        return [[a, 0, 0], [0, a, 0], [0, 0, a]]
    return [[a, 0, 0], [0, b, 0], [0, 0, c]]


def frac_to_cart(frac, cell):
    return [sum(frac[k] * cell[k][j] for k in range(3)) for j in range(3)]


def gen_atoms(rnd: random.Random, n: int, cell=None, arrays: float = 0.5, uid: bool = True,
              species=None, constraints: str | None = None, pbc=None, spread=1.0):
    cell = cell or gen_cell(rnd)
    species = species or SPECIES
    numbers = [rnd.choice(species) for _ in range(n)]
    pos = []
    for _ in range(n):
        f = [0.5 + spread * (rnd.random() - 0.5) for _ in range(3)]
        pos.append([round(x, 6) for x in frac_to_cart(f, cell)])
    spec = {"numbers": numbers, "positions": pos, "cell": cell,
            "pbc": pbc if pbc is not None else True, "arrays": {}}
    arr = spec["arrays"]
    if uid:
        arr["uid"] = list(range(1, n + 1))
    if rnd.random() < arrays:
        arr["tags"] = [rnd.randint(0, 3) for _ in range(n)]
    if rnd.random() < arrays:
        arr["momenta"] = [[rfloat(rnd, -1, 1, 4) for _ in range(3)] for _ in range(n)]
    if rnd.random() < arrays:
        arr["initial_charges"] = [rfloat(rnd, -1, 1, 3) for _ in range(n)]
    if rnd.random() < arrays * 0.6:
        arr["vec2"] = [[rfloat(rnd, -1, 1, 3) for _ in range(2)] for _ in range(n)]
    if rnd.random() < arrays * 0.4:
        arr["masses"] = [rfloat(rnd, 1.0, 120.0, 3) for _ in range(n)]
    cons = []
    if constraints and n:
        if "fixatoms" in constraints and n >= 1:
            k = rnd.randint(1, max(1, n // 2))
            cons.append({"type": "FixAtoms", "indices": sorted(rnd.sample(range(n), k))})
        if "fixcom" in constraints:
            cons.append({"type": "FixCom"})
        if "fixrot" in constraints:
            cons.append({"type": "FixRot"})
            spec["pbc"] = False
        if "hookean" in constraints:
            # a restraint that ADDS to the potential energy (ASE: adjust_potential_energy / adjust_forces): one atom
            # tethered to a point near its position
            i = rnd.randrange(n)
            p = spec["positions"][i]
            cons.append({"type": "Hookean", "a1": i, "point": [round(p[j] + rnd.uniform(-0.8, 0.8), 4) for j in range(3)],
                         "k": rfloat(rnd, 0.5, 5.0, 3), "rt": rfloat(rnd, 0.0, 0.6, 3)})
    spec["constraints"] = cons
    return spec


def gen_labels(rnd: random.Random, n: int, style: str | None = None, mol: int = 1):
    """Label arrays: atomic, molecular (groups of `mol`), with negatives, shuffled,
    non-contiguous."""
    if n == 0:
        return []
    style = style or rnd.choice(["atomic", "atomic", "atomic", "gaps", "gaps", "negatives", "negatives", "shuffled", "shuffled",
                                 "molecular", "molecular", "allneg"])
    if style == "molecular" or mol > 1:
        m = max(mol, 2) if style == "molecular" else mol
        labels = [i // m for i in range(n)]
    else:
        labels = list(range(n))
    if style in ("gaps", "shuffled"):
        remap = sorted(rnd.sample(range(0, 3 * n + 3), len(set(labels))))
        if style == "shuffled":
            rnd.shuffle(remap)
        uniq = sorted(set(labels))
        m = dict(zip(uniq, remap))
        labels = [m[x] for x in labels]
    if style == "negatives":
        uniq = sorted(set(labels))
        neg = set(rnd.sample(uniq, rnd.randint(1, max(1, len(uniq) // 2)))) if uniq else set()
        labels = [(-1 if rnd.random() < 0.7 else -rnd.randint(2, 5)) if x in neg else x for x in labels]
    if style == "allneg":
        labels = [-1] * n
    return labels


DISP_OPS = ["Ball", "Box", "Sphere", "Translation", "Rotation", "TranslationRotation"]


def gen_disp_op(rnd: random.Random, allow_composite=True, kinds=None):
    kinds = kinds or DISP_OPS
    r = rnd.random()
    if allow_composite and r < 0.15:
        return {"type": "sum", "items": [gen_disp_op(rnd, False, kinds) for _ in range(rnd.randint(2, 3))]}
    if allow_composite and r < 0.22:
        return {"type": "mul", "item": gen_disp_op(rnd, False, kinds), "n": rnd.randint(2, 3)}
    t = rnd.choice(kinds)
    if t in ("Ball", "Box", "Sphere"):
        return {"type": t, "step": logu(rnd, 0.01, 1.0)}
    return {"type": t}


def gen_cell_op(rnd: random.Random, kinds=None, mask_prob=0.3):
    t = rnd.choice(kinds or ["IsotropicDeformation", "AnisotropicDeformation", "ShapeDeformation"])
    op = {"type": t, "max": logu(rnd, 0.005, 0.15)}
    if rnd.random() < mask_prob:
        # symmetric masks keep the deformation gradient symmetric
        d = [rnd.random() < 0.7 for _ in range(3)]
        o = [rnd.random() < 0.6 for _ in range(3)]
        op["mask"] = [[d[0], o[0], o[1]], [o[0], d[1], o[2]], [o[1], o[2], d[2]]]
    return op


def gen_pot(rnd: random.Random, cell, scale: str = "moderate", pair=True, field=False,
            cellterm=False):
    c = frac_to_cart([0.5, 0.5, 0.5], cell)
    if scale == "moderate":
        k = logu(rnd, 0.01, 2.0)
        A = logu(rnd, 0.01, 1.0) if pair and rnd.random() < 0.7 else 0.0
    elif scale == "extreme":
        k = logu(rnd, 1e-3, 1e7)
        A = logu(rnd, 1e-2, 1e6) if pair and rnd.random() < 0.5 else 0.0
    else:  # ideal
        k = 0.0
        A = 0.0
    pot = {"k": k, "center": [round(x, 4) for x in c], "A": A, "s": rfloat(rnd, 0.5, 2.0, 3)}
    if field:
        pot["field"] = [rfloat(rnd, -0.5, 0.5, 3) for _ in range(3)]
    if cellterm:
        vol = abs(cell[0][0] * (cell[1][1] * cell[2][2] - cell[1][2] * cell[2][1])
                  - cell[0][1] * (cell[1][0] * cell[2][2] - cell[1][2] * cell[2][0])
                  + cell[0][2] * (cell[1][0] * cell[2][1] - cell[1][1] * cell[2][0]))
        pot["kv"] = logu(rnd, 1e-4, 1e-1)
        pot["V0"] = round(vol * rnd.uniform(0.8, 1.2), 3)
        pot["ks"] = logu(rnd, 1e-3, 1e-1) if rnd.random() < 0.5 else 0.0
    if rnd.random() < 0.3:
        pot["e0"] = rfloat(rnd, -0.5, 0.5, 3)
    return pot


def gen_temperature(rnd: random.Random, scale="moderate"):
    if scale == "extreme":
        return logu(rnd, 1e-2, 1e5)
    return logu(rnd, 100.0, 5000.0)
