"""Campaign engine: seeded batch of runs on 16 processes, violation grouping by signature,
shrinking, replay files, known findings, evidence, exit codes.

exit 0  every run finished, no unlisted violation
exit 1  unlisted violation(s): `VIOLATION property=<id> replay=<path>` per signature
exit 2  harness error / worker death / timeout (never a verdict)
exit 3  inconclusive: most runs were cut short by failures owned by *other* properties
"""
from __future__ import annotations

import faulthandler
import json
import multiprocessing as mp
import os
import random
import signal
import subprocess
import sys
import time
import traceback
from concurrent.futures import ProcessPoolExecutor, as_completed

from simkit.core import OUT_DIR, VERIF_DIR, derive

NPROC = int(os.environ.get("VERIF_NPROC", "16"))


class Campaign:
    prop = "C00"
    level = "exploration"
    rule = ""
    assumptions: list = []
    real_components: list = []
    stub_components: list = []
    run_timeout_s = 60
    replay_timeout_s = 300

    def budget(self, tier: str) -> dict:
        return {"runs": 100, "wall_s": 120}

    def generate(self, rnd: random.Random, tier: str, index: int) -> dict:
        raise NotImplementedError

    def execute(self, scenario: dict) -> dict:
        """-> packed RunResult (dict)"""
        raise NotImplementedError

    def shrink_candidates(self, scenario: dict, signature: str, violation: dict):
        return iter(())

    def sample_view(self, scenario: dict) -> dict:
        return scenario

    def nontrivial(self, packed: dict) -> bool:
        return True

    def post_batch(self, results: list, ev: dict) -> list:
        """Campaign-level checks over the whole batch (statistics).  Returns extra
        violations as (signature, detail, scenario) tuples."""
        return []


class _Timeout(Exception):
    pass


def _alarm(signum, frame):
    raise _Timeout()


def _worker(args):
    camp, seed, tier, indices, deadline = args
    out = []
    signal.signal(signal.SIGALRM, _alarm)
    for i in indices:
        if time.time() > deadline:  # wall clock only decides whether to *start* a run
            break
        rnd = random.Random(derive(seed, camp.prop, tier, i, "scenario"))
        t0 = time.time()
        try:
            signal.alarm(camp.run_timeout_s)
            sc = camp.generate(rnd, tier, i)
            res = camp.execute(sc)
            signal.alarm(0)
        except _Timeout:
            res = {"violations": [], "stats": {}, "cover": [], "digest": "", "foreign": [],
                   "harness_error": f"run {i} timed out after {camp.run_timeout_s}s"}
            sc = None
        except BaseException:  # noqa: BLE001
            signal.alarm(0)
            res = {"violations": [], "stats": {}, "cover": [], "digest": "", "foreign": [],
                   "harness_error": traceback.format_exc()[-3000:]}
            sc = None
        res["index"] = i
        res["wall"] = time.time() - t0
        # keep scenarios only where needed (violations, and a few samples)
        res["scenario"] = sc if (res["violations"] or i < 4) else None
        out.append(res)
    return out


def run_batch(camp: Campaign, seed: int, tier: str, indices: list[int], wall_s: float):
    """Run the given run indices in parallel; returns (results sorted by index, complete?)"""
    chunks = [indices[i::NPROC * 4] for i in range(NPROC * 4)]
    chunks = [c for c in chunks if c]
    results = []
    t0 = time.time()
    ctx = mp.get_context("fork")
    complete = True
    with ProcessPoolExecutor(max_workers=NPROC, mp_context=ctx) as pool:
        deadline = t0 + wall_s
        futs = [pool.submit(_worker, (camp, seed, tier, c, deadline)) for c in chunks]
        try:
            for f in as_completed(futs, timeout=wall_s + 4 * camp.run_timeout_s + 60):
                results.extend(f.result())
        except Exception as e:  # noqa: BLE001  (timeout, broken pool)
            complete = False
            for f in futs:
                f.cancel()
            sys.stderr.write(f"batch incomplete: {type(e).__name__}: {e}\n")
            for p in list(getattr(pool, "_processes", {}).values()):
                try:
                    p.kill()
                except Exception:  # noqa: BLE001
                    pass
    results.sort(key=lambda r: r["index"])
    return results, complete, time.time() - t0


# --------------------------------------------------------------------------------------
def one_digest(camp: Campaign, tier: str, seed: int, index: int) -> str:
    """Digest of everything one run produced (self-test of determinism)."""
    import hashlib

    rnd = random.Random(derive(seed, camp.prop, tier, index, "scenario"))
    sc = camp.generate(rnd, tier, index)
    res = camp.execute(sc)
    blob = json.dumps({"scenario": sc, "violations": [(v["signature"], v["detail"][:300], v["at"]) for v in res["violations"]],
                       "stats": res["stats"], "cover": res["cover"], "digest": res["digest"], "foreign": res["foreign"],
                       "harness_error": bool(res["harness_error"])}, sort_keys=True, default=str)
    return hashlib.sha256(blob.encode()).hexdigest()


def load_findings() -> list:
    path = os.path.join(VERIF_DIR, "known_findings.json")
    if not os.path.exists(path):
        return []
    with open(path) as f:
        return json.load(f)["findings"]


def _safe_candidates(camp, scenario, signature, violation):
    """Candidate generation must never decide the outcome of a check: an exception in it ends the shrinking."""
    try:
        yield from camp.shrink_candidates(scenario, signature, violation)
    except Exception:  # noqa: BLE001
        return


def shrink(camp: Campaign, scenario: dict, signature: str, violation: dict, budget_runs=150, budget_s=90):
    """Greedy: accept a candidate iff it still yields a violation with this signature."""
    t0 = time.time()
    runs = 0
    best = scenario
    best_v = violation
    improved = True
    while improved and runs < budget_runs and time.time() - t0 < budget_s:
        improved = False
        for cand in _safe_candidates(camp, best, signature, best_v):
            if runs >= budget_runs or time.time() - t0 > budget_s:
                break
            runs += 1
            try:
                signal.signal(signal.SIGALRM, _alarm)
                signal.alarm(camp.run_timeout_s)
                res = camp.execute(cand)
                signal.alarm(0)
            except BaseException:  # noqa: BLE001
                signal.alarm(0)
                continue
            hit = [v for v in res["violations"] if v["signature"] == signature]
            if hit:
                best = cand
                best_v = hit[0]
                improved = True
                break
    return best, runs


def write_replay(camp: Campaign, signature: str, scenario: dict, detail: dict, seed: int) -> str:
    import hashlib

    os.makedirs(os.path.join(OUT_DIR, "replays"), exist_ok=True)
    sig8 = hashlib.sha256(signature.encode()).hexdigest()[:8]
    path = os.path.join(OUT_DIR, "replays", f"{camp.prop}-{sig8}-{seed}.json")
    with open(path, "w") as f:
        json.dump({"property": camp.prop, "signature": signature, "seed": seed,
                   "scenario": scenario, "violation": detail}, f, indent=1, sort_keys=True)
    return path


def replay(camp: Campaign, path: str) -> int:
    with open(path) as f:
        data = json.load(f)
    res = camp.execute(data["scenario"])
    sigs = [v["signature"] for v in res["violations"]]
    if data["signature"] in sigs:
        v = next(v for v in res["violations"] if v["signature"] == data["signature"])
        print(f"replayed: {v['signature']}\n  at {v['at']}\n  {v['detail'][:1500]}")
        print(f"VIOLATION property={camp.prop} replay={path}")
        return 1
    if res.get("harness_error"):
        print("HARNESS-ERROR during replay:\n" + res["harness_error"])
        return 2
    print(f"not reproduced: expected {data['signature']}; got {sigs}")
    return 0


def verify_replay(camp: Campaign, path: str) -> bool:
    """Replay the file in a fresh interpreter; must fail the same way."""
    env = dict(os.environ)
    env["PYTHONHASHSEED"] = "0"
    try:
        p = subprocess.run([sys.executable, os.path.join(VERIF_DIR, "check.py"), camp.prop, "--replay", path],
                           capture_output=True, text=True, timeout=camp.replay_timeout_s, env=env, cwd=VERIF_DIR)
    except subprocess.TimeoutExpired:
        return False
    return p.returncode == 1 and f"VIOLATION property={camp.prop}" in p.stdout


def main_check(camp: Campaign, tier: str, seed: int) -> int:
    faulthandler.enable()
    t_start = time.time()
    b = camp.budget(tier)
    indices = list(range(b["runs"]))
    results, complete, wall = run_batch(camp, seed, tier, indices, b["wall_s"])
    harness_errors = [r for r in results if r.get("harness_error")]
    # ---- aggregate
    stats: dict = {}
    cover = set()
    nontrivial_cover = set()
    by_sig: dict = {}
    n_foreign_runs = 0
    foreign_kinds: dict = {}
    notes = []
    for r in results:
        for nt in r.get("notes", []):
            if len(notes) < 60:
                notes.append(f"run {r['index']}: {nt}")
        for k, v in r["stats"].items():
            stats[k] = stats.get(k, 0) + v
        cover.update(r["cover"])
        if camp.nontrivial(r):
            nontrivial_cover.update(r["cover"])
        if r["foreign"]:
            n_foreign_runs += 1
            for fe in r["foreign"]:
                key = f"{fe['type']}@{fe['where']}(owner={fe['owner']})"
                foreign_kinds[key] = foreign_kinds.get(key, 0) + 1
        for v in r["violations"]:
            by_sig.setdefault(v["signature"], []).append((r["index"], v, r["scenario"]))
    ev_extra: dict = {}
    extra = camp.post_batch(results, ev_extra)
    for sig, detail, sc in extra:
        by_sig.setdefault(sig, []).append((-1, {"signature": sig, "detail": detail, "at": "batch",
                                                "prop": camp.prop, "invariant": sig.split("|")[1],
                                                "context": "|".join(sig.split("|")[2:])}, sc))
    findings = [f for f in load_findings() if f["property"] == camp.prop]
    open_sigs = {f["signature"]: f for f in findings if f["status"] == "open"}
    # ---- report
    new_violations = []
    known_hits = []
    replay_verified = {}
    for sig in sorted(by_sig):
        idx, v, sc = by_sig[sig][0]
        if sig in open_sigs:
            known_hits.append((sig, len(by_sig[sig]), v))
            continue
        path = None
        if sc is not None:
            small, nruns = shrink(camp, sc, sig, v)
            path = write_replay(camp, sig, small, v, seed)
            replay_verified[sig] = verify_replay(camp, path)
            if not replay_verified[sig]:
                # fall back to the unshrunk scenario
                path = write_replay(camp, sig, sc, v, seed)
                replay_verified[sig] = verify_replay(camp, path)
        new_violations.append((sig, len(by_sig[sig]), v, path))
    for sig, n, v in known_hits:
        f = open_sigs[sig]
        print(f"KNOWN-FINDING: property={camp.prop} {f['id']} {f['what']} [{n} occurrences this run; signature {sig}]")
    for sig, n, v, path in new_violations:
        print(f"violation signature: {sig}  ({n} runs)  replay_verified={replay_verified.get(sig)}")
        print(f"  first at {v['at']}: {v['detail'][:800]}")
        print(f"VIOLATION property={camp.prop} replay={path}")
    # ---- evidence
    runs_done = len(results)
    samples = [camp.sample_view(r["scenario"]) for r in results if r["scenario"] is not None][:4]
    evaluations = int(stats.get("evaluations", runs_done)) or runs_done
    evidence = {
        "property_id": camp.prop,
        "tier": tier,
        "seed": seed,
        "level": camp.level,
        "coverage": {
            "evaluations": max(1, evaluations),
            "distinct_nontrivial": len(nontrivial_cover),
            "rule": camp.rule,
            "samples": samples or [{"note": "no run completed"}],
            "runs": runs_done,
            "runs_per_hour": round(runs_done / max(wall, 1e-9) * 3600),
            "simulated_time": {"steps": stats.get("steps", 0), "trials": stats.get("trials", 0)},
            "fault_fire_counts": {k[6:]: v for k, v in sorted(stats.items()) if k.startswith("fault.")},
            "probes": {k[6:]: v for k, v in sorted(stats.items()) if k.startswith("probe.")},
            "counters": {k: v for k, v in sorted(stats.items())
                         if not k.startswith(("fault.", "probe."))},
            "distinct_cover_all": len(cover),
            "foreign_exceptions": f"{n_foreign_runs} runs cut short by failures owned by other properties: {foreign_kinds}",
            "known_findings_matched": [s for s, _, _ in known_hits],
            "new_violation_signatures": [s for s, _, _, _ in new_violations],
            "replay_verified": replay_verified,
            "real_components": camp.real_components,
            "stub_components": camp.stub_components,
            "batch_complete": complete,
            "notes": notes,
            **ev_extra,
        },
        "assumptions": camp.assumptions,
        "wall_s": round(time.time() - t_start, 2),
        "violations": len(new_violations),
    }
    os.makedirs(os.path.join(OUT_DIR, "evidence"), exist_ok=True)
    with open(os.path.join(OUT_DIR, "evidence", f"{camp.prop}.json"), "w") as f:
        json.dump(evidence, f, indent=1, sort_keys=True, default=str)
    print(f"[{camp.prop}/{tier}] seed={seed} runs={runs_done} trials={stats.get('trials', 0)} "
          f"cover={len(nontrivial_cover)} foreign_runs={n_foreign_runs} "
          f"known={len(known_hits)} new={len(new_violations)} wall={time.time() - t_start:.1f}s")
    if harness_errors or not complete:
        for r in harness_errors[:3]:
            print(f"HARNESS-ERROR run={r['index']}:\n{r['harness_error']}")
        print(f"HARNESS-ERROR: {len(harness_errors)} runs failed inside /verif code or timed out; "
              f"batch_complete={complete}")
        return 2
    if new_violations:
        return 1
    if runs_done and n_foreign_runs > 0.5 * runs_done:
        print(f"INCONCLUSIVE: {n_foreign_runs}/{runs_done} runs cut short by failures owned by other "
              f"properties: {foreign_kinds}")
        return 3
    return 0
