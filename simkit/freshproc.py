#!/venv/bin/python
"""Entry points executed in a *fresh interpreter* (recovery after process death).

  freshproc.py resume <job.json>       C07: rebuild from restart-file text and continue
  freshproc.py components <job.json>   C08: import one public module first, then rebuild
                                        every serialized component by registered name
  freshproc.py digest <job.json>       C06: run a scenario and print its event digest
"""
from __future__ import annotations

import importlib
import json
import os
import sys
import traceback

HERE = os.path.dirname(os.path.dirname(os.path.abspath(__file__)))
sys.path.insert(0, HERE)
REPO_SRC = os.environ.get("VERIF_REPO_SRC", "/repo/src")
sys.path.insert(0, REPO_SRC)
for var in ("OMP_NUM_THREADS", "OPENBLAS_NUM_THREADS", "MKL_NUM_THREADS"):
    os.environ.setdefault(var, "1")

ALL_PACKAGES = ["quansino.mc", "quansino.moves", "quansino.operations", "quansino.integrators",
                "quansino.io", "quansino.utils"]


def _err(exc):
    tb = traceback.extract_tb(exc.__traceback__)
    where = "?"
    for fr in reversed(tb):
        if "/quansino/" in fr.filename:
            where = f"{os.path.basename(fr.filename)}:{fr.name}"
            break
    return {"type": type(exc).__name__, "where": where,
            "text": "".join(traceback.format_exception(type(exc), exc, exc.__traceback__))[-2500:]}


def resume(job):
    import warnings

    warnings.simplefilter("ignore")
    try:
        importlib.import_module(job["first_import"])
        for m in ALL_PACKAGES:
            importlib.import_module(m)
    except Exception as e:  # noqa: BLE001
        return {"error": _err(e) | {"phase": "import"}}
    from campaigns.c07 import resume_inprocess

    try:
        k, trace = resume_inprocess(job["driver"], job["text"], job["calc"], job["total"], job.get("changes"))
    except Exception as e:  # noqa: BLE001
        return {"error": _err(e)}
    return {"k": k, "trace": trace}


def components(job):
    import warnings

    warnings.simplefilter("ignore")
    out = {"first_import": job["first_import"], "import_ok": True, "results": []}
    try:
        importlib.import_module(job["first_import"])
    except Exception as e:  # noqa: BLE001
        out["import_ok"] = False
        out["import_error"] = _err(e)
        return out
    try:
        # the documented restart path imports the driver's module and nothing else: every class a saved
        # simulation can name must be registered by that alone
        importlib.import_module("quansino.mc")
    except Exception as e:  # noqa: BLE001
        out["import_ok"] = False
        out["import_error"] = _err(e) | {"phase": "rest"}
        return out
    from campaigns.c08 import rebuild_report

    for comp in job["components"]:
        try:
            out["results"].append(rebuild_report(comp))
        except Exception as e:  # noqa: BLE001
            out["results"].append({"id": comp["id"], "error": _err(e)})
    return out


def digest(job):
    from simkit import core

    core.setup_imports()
    from campaigns.c06 import run_digest

    return run_digest(job["scenario"], job.get("junk", 0), holder={})


if __name__ == "__main__":
    mode, path = sys.argv[1], sys.argv[2]
    with open(path) as f:
        job = json.load(f)
    res = {"resume": resume, "components": components, "digest": digest}[mode](job)
    sys.stdout.write("\n" + json.dumps(res) + "\n")
