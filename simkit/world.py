"""scenario (JSON) -> real quansino / ASE objects, and the stepping loop the harness owns.

Everything quansino-side is the real class.  Harness-side objects put at the seams:
calculator stubs (simkit.calcs), SimFile (simkit.simfs), SimGen (simkit.rngseam), the
criteria wrapper `TapeCriteria`, `check_move` probes, recording operations and bare
protocol-only plug-ins.
"""
from __future__ import annotations

import warnings

import numpy as np
from ase import Atoms
from ase.constraints import FixAtoms, FixCom

from simkit import calcs, rngseam
from simkit.core import Digest, RunResult, Violation, classify_exception
from simkit.simfs import SimCrash


def _q():
    """Import quansino lazily (after core.setup_imports())."""
    import quansino.integrators  # noqa: F401
    import quansino.io  # noqa: F401
    import quansino.mc  # noqa: F401
    import quansino.moves  # noqa: F401
    import quansino.operations  # noqa: F401
    import quansino.utils  # noqa: F401
    import quansino

    return quansino


# --------------------------------------------------------------------------------------
# atoms
# --------------------------------------------------------------------------------------
def build_atoms(spec: dict) -> Atoms:
    n = len(spec["numbers"])
    atoms = Atoms(
        numbers=spec["numbers"],
        positions=np.array(spec["positions"], dtype=float).reshape(n, 3),
        cell=np.array(spec["cell"], dtype=float),
        pbc=spec.get("pbc", True),
    )
    arr = spec.get("arrays", {})
    if "tags" in arr:
        atoms.set_tags(arr["tags"])
    if "momenta" in arr:
        atoms.set_momenta(np.array(arr["momenta"], dtype=float).reshape(n, 3))
    if "initial_charges" in arr:
        atoms.set_initial_charges(arr["initial_charges"])
    if "masses" in arr:
        atoms.set_masses(arr["masses"])
    if "uid" in arr:
        atoms.set_array("uid", np.array(arr["uid"], dtype=np.int64), np.int64, ())
    if "vec2" in arr:
        atoms.set_array("vec2", np.array(arr["vec2"], dtype=float).reshape(n, 2), float, (2,))
    cons = []
    for c in spec.get("constraints", []):
        if c["type"] == "FixAtoms":
            cons.append(FixAtoms(indices=list(c["indices"])))
        elif c["type"] == "FixCom":
            cons.append(FixCom())
        elif c["type"] == "FixRot":
            from quansino.constraints import FixRot

            cons.append(FixRot())
        elif c["type"] == "Hookean":
            from ase.constraints import Hookean

            cons.append(Hookean(a1=int(c["a1"]), a2=tuple(c["point"]), k=float(c["k"]), rt=float(c["rt"])))
    if cons:
        atoms.set_constraint(cons)
    return atoms


# --------------------------------------------------------------------------------------
# operations / moves
# --------------------------------------------------------------------------------------
class RecordingOp:
    """A user-side operation implementing the Operation protocol by delegation; records
    every result it hands to the move (C11 oracle)."""

    def __init__(self, inner, sink: list):
        self.inner = inner
        self.sink = sink

    def calculate(self, context):
        out = self.inner.calculate(context)
        self.sink.append(np.array(out, dtype=float, copy=True))
        return out

    def to_dict(self):
        return self.inner.to_dict()

    @classmethod
    def from_dict(cls, data):  # pragma: no cover - protocol completeness
        raise NotImplementedError


def build_op(spec: dict):
    import quansino.operations as ops

    t = spec["type"]
    if t in ("Ball", "Box", "Sphere"):
        return getattr(ops, t)(spec.get("step", 1.0))
    if t in ("Translation", "Rotation", "TranslationRotation"):
        return getattr(ops, t)()
    if t in ("IsotropicDeformation", "AnisotropicDeformation", "ShapeDeformation"):
        mask = spec.get("mask")
        mask = None if mask is None else np.array(mask, dtype=bool)
        return getattr(ops, t)(spec.get("max", 0.05), mask)
    if t == "sum":
        items = [build_op(s) for s in spec["items"]]
        if spec.get("assoc") == "right":
            # a + (b + (c + ...)): the other parenthesisation of the same expression
            out = items[-1]
            for it in reversed(items[:-1]):
                out = it + out
            return out
        out = items[0]
        for it in items[1:]:
            out = out + it
        return out
    if t == "mul":
        return build_op(spec["item"]) * int(spec["n"])
    raise ValueError(f"unknown op {t}")


# looked up on the instance by copy.copy / copy.deepcopy / pickle: a driver that copies a user object reads all of it
COPY_HOOKS = ("__deepcopy__", "__copy__", "__reduce_ex__", "__reduce__", "__getstate__")


class BareMove:
    """A user-defined move that implements only the documented protocol and inherits
    from nothing in the package.  Every attribute access from outside is logged."""

    _PROTO = ("__call__", "on_atoms_changed", "on_cell_changed", "to_dict", "from_dict")

    def __init__(self, results, log, kind="disp", step=0.05):
        object.__setattr__(self, "_results", list(results))
        object.__setattr__(self, "_log", log)
        object.__setattr__(self, "_kind", kind)
        object.__setattr__(self, "_step", step)
        object.__setattr__(self, "_ncalls", 0)
        object.__setattr__(self, "_inside", 0)

    def __getattribute__(self, name):
        if not name.startswith("_") or name in ("__call__",) or name in COPY_HOOKS:
            log = object.__getattribute__(self, "_log")
            if not object.__getattribute__(self, "_inside"):
                log.append(("get", name))
        return object.__getattribute__(self, name)

    def __setattr__(self, name, value):
        if not object.__getattribute__(self, "_inside"):
            object.__getattribute__(self, "_log").append(("set", name))
        object.__setattr__(self, name, value)

    def __call__(self, context):
        object.__setattr__(self, "_inside", 1)
        try:
            i = self._ncalls
            object.__setattr__(self, "_ncalls", i + 1)
            res = self._results[i % len(self._results)] if self._results else True
            self._log.append(("call", "__call__", repr(res)))
            atoms = context.atoms
            if res and len(atoms):
                if self._kind == "disp":
                    d = context.rng.uniform(-self._step, self._step, (1, 3))
                    pos = atoms.positions.copy()
                    pos[int(context.rng.integers(len(atoms)))] += d[0]
                    atoms.positions = pos
                elif self._kind == "cell":
                    f = 1.0 + context.rng.uniform(-self._step, self._step)
                    atoms.set_cell(atoms.cell.array * f, scale_atoms=True)
            return res
        finally:
            object.__setattr__(self, "_inside", 0)

    def on_atoms_changed(self, added_indices, removed_indices):
        self._log.append(("call", "on_atoms_changed",
                          [int(i) for i in np.atleast_1d(added_indices)],
                          [int(i) for i in np.atleast_1d(removed_indices)]))

    def on_cell_changed(self, new_cell):
        self._log.append(("call", "on_cell_changed", np.asarray(new_cell).tolist()))

    def to_dict(self):
        self._log.append(("call", "to_dict"))
        return {"name": "BareMove", "kwargs": {"marker": 12345}}

    @classmethod
    def from_dict(cls, data):
        return cls([True], [])


class BareMoveEqUnhashable(BareMove):
    """A user move with value equality and (like a plain @dataclass) no hash."""

    def __eq__(self, other):
        return type(other) is type(self)

    __hash__ = None


class BareMoveEqHash(BareMove):
    """A user move with value equality and a matching hash (like a frozen dataclass): two distinct objects
    with the same configuration compare equal."""

    def __eq__(self, other):
        return type(other) is type(self)

    def __hash__(self):
        return 7


class BareCriteria:
    """A user-defined criteria implementing only the protocol."""

    def __init__(self, verdicts, log):
        object.__setattr__(self, "_verdicts", list(verdicts))
        object.__setattr__(self, "_log", log)
        object.__setattr__(self, "_n", 0)
        object.__setattr__(self, "_inside", 0)

    def __getattribute__(self, name):
        if not name.startswith("_") or name in COPY_HOOKS:
            if not object.__getattribute__(self, "_inside"):
                object.__getattribute__(self, "_log").append(("get", name))
        return object.__getattribute__(self, name)

    def __setattr__(self, name, value):
        if not object.__getattribute__(self, "_inside"):
            object.__getattribute__(self, "_log").append(("set", name))
        object.__setattr__(self, name, value)

    def evaluate(self, context):
        object.__setattr__(self, "_inside", 1)
        try:
            i = self._n
            object.__setattr__(self, "_n", i + 1)
            v = self._verdicts[i % len(self._verdicts)] if self._verdicts else True
            self._log.append(("call", "evaluate", repr(v)))
            return v
        finally:
            object.__setattr__(self, "_inside", 0)

    def to_dict(self):
        self._log.append(("call", "to_dict"))
        return {"name": "BareCriteria", "kwargs": {"marker": 54321}}

    @classmethod
    def from_dict(cls, data):
        return cls([True], [])


def with_truthiness(cls, truth):
    """User objects may be falsy (a container-like criteria that is empty when fresh, a move with __bool__): the
    protocol says nothing about truthiness, so the driver must not test it."""
    if truth == "len0":
        return type(cls.__name__ + "Len0", (cls,), {"__len__": lambda self: 0})
    if truth == "boolfalse":
        return type(cls.__name__ + "BoolFalse", (cls,), {"__bool__": lambda self: False})
    return cls


class CountingDistribution:
    """Wraps the momentum distribution callable (a constructor argument of the
    Hamiltonian move) so that the harness sees the freshly drawn momenta."""

    def __init__(self, world):
        self.world = world

    def __call__(self, context):
        from quansino.utils.dynamics import maxwell_boltzmann_distribution

        maxwell_boltzmann_distribution(context)
        self.world.on_momenta_drawn(context)


class RecordingIntegrator:
    """A user-side Integrator implementing the protocol by delegation; records the kinetic
    energy and momenta the atoms carry when an integration starts (the start of the
    trajectory whose total-energy change the acceptance test is about)."""

    def __init__(self, inner, world):
        self.inner = inner
        self.world = world

    def integrate(self, context):
        a = self.world.atoms
        self.world.integrate_events.append({"ke": float(a.get_kinetic_energy()),
                                            "momenta": np.array(a.get_momenta(), copy=True)})
        return self.inner.integrate(context)

    def to_dict(self):
        return self.inner.to_dict()

    @classmethod
    def from_dict(cls, data):  # pragma: no cover
        raise NotImplementedError


class MoveEnv:
    def __init__(self, world):
        self.world = world
        self.named = {}  # table name -> move object (for "ref")
        self.leaves = []  # (path, leaf move) unique by identity, label-bearing or not
        self._seen = set()

    def register(self, path, move):
        if id(move) not in self._seen:
            self._seen.add(id(move))
            self.leaves.append((path, move))


def _composite_settings(move, spec):
    """Documented tunables of the composite itself (the composite exchange move decides insert/delete once per call
    with its own bias_towards_insert)."""
    if "composite_bias" in spec and hasattr(move, "bias_towards_insert"):
        move.bias_towards_insert = spec["composite_bias"]
    return move


def build_move(spec: dict, env: MoveEnv, path: str):
    import quansino.moves as qm
    from quansino.integrators import Verlet
    from quansino.moves.exchange import ExchangeMove

    w = env.world
    t = spec["type"]
    if t == "ref":
        if "leaf" in spec:
            # one elementary move of a composite entry, registered a second time on its own (the same object)
            return World.leaves_of(env.named[spec["of"]])[spec["leaf"]]
        return env.named[spec["of"]]
    if t == "sum":
        items = [build_move(s, env, f"{path}.{i}") for i, s in enumerate(spec["items"])]
        if spec.get("assoc") == "right":
            # a + (b + (c + ...)): the other parenthesisation of the same expression
            out = items[-1]
            for it in reversed(items[:-1]):
                out = it + out
            return _composite_settings(out, spec)
        out = items[0]
        for it in items[1:]:
            out = out + it
        return _composite_settings(out, spec)
    if t == "mul":
        return _composite_settings(build_move(spec["item"], env, f"{path}.x") * int(spec["n"]), spec)
    if t == "wrap":
        return qm.CompositeMove([build_move(s, env, f"{path}.{i}") for i, s in enumerate(spec["items"])])
    if t == "bare":
        log = []
        bare_cls = {"plain": BareMove, "eq_unhashable": BareMoveEqUnhashable, "eq_hash": BareMoveEqHash}[spec.get("equality", "plain")]
        bare_cls = with_truthiness(bare_cls, spec.get("truth"))
        mv = bare_cls(spec.get("results", [True]), log, spec.get("kind", "disp"), spec.get("step", 0.05))
        w.bare_logs[path] = log
        w.bare_objs[path] = mv
        return mv
    if t == "disp":
        op = build_op(spec["op"]) if spec.get("op") else None
        mv = qm.DisplacementMove(np.array(spec["labels"], dtype=int), op,
                                 apply_constraints=spec.get("apply_constraints", True))
    elif t == "exch":
        op = build_op(spec["op"]) if spec.get("op") else None
        mv = ExchangeMove(np.array(spec["labels"], dtype=int), op,
                          bias_towards_insert=spec.get("bias", 0.5),
                          apply_constraints=spec.get("apply_constraints", True))
    elif t == "cell":
        op = build_op(spec["op"]) if spec.get("op") else None
        mv = qm.CellMove(op, scale_atoms=spec.get("scale_atoms", True),
                         apply_constraints=spec.get("apply_constraints", True))
    elif t == "hmc":
        integ = Verlet(dt=spec.get("dt", 1.0), max_steps=spec.get("nsteps", 5))
        if w.opts.get("probe_distribution", True):
            mv = qm.HamiltonianDisplacementMove(CountingDistribution(w), integ)
        else:
            mv = qm.HamiltonianDisplacementMove(operation=integ)
        if w.opts.get("record_integrator"):
            mv.operation = RecordingIntegrator(mv.operation, w)
    else:
        raise ValueError(f"unknown move {t}")
    if "max_attempts" in spec:
        mv.max_attempts = int(spec["max_attempts"])
    if "default_label" in spec and t in ("disp", "exch"):
        mv.default_label = spec["default_label"]
    if spec.get("via_copy") and t in ("disp", "exch", "cell"):
        # the user configures a move and hands a copy of it to the simulation (copy(move) goes through the move's
        # dictionary form): the copy must be configured like the original
        import copy as _copy

        mv = _copy.copy(mv)
    if w.opts.get("record_ops") and t in ("disp",):
        sink = []
        mv.operation = RecordingOp(mv.operation, sink)
        w.op_sinks[id(mv)] = sink
    if w.opts.get("probe_check_move", True):
        mv.check_move = w.make_check_probe(path)
    env.register(path, mv)
    return mv


# --------------------------------------------------------------------------------------
class TapeCriteria:
    """User-side criteria wrapping the real one.  The real criteria is always called
    (draws and energy evaluations stay as shipped); afterwards the verdict tape may
    override the result.  The acceptance monitor observes the *real* verdict."""

    def __init__(self, inner, world, name):
        self.inner = inner
        self.world = world
        self.name = name

    def evaluate(self, context):
        w = self.world
        w.on_criteria_enter(self.name, context, self.inner)
        verdict = self.inner.evaluate(context)
        w.on_criteria_exit(self.name, context, self.inner, verdict)
        forced = w.forced_verdict()
        if forced is None:
            return verdict
        w.result.count("fault.forced_accept" if forced else "fault.forced_reject")
        return forced

    def to_dict(self):
        return self.inner.to_dict()

    @classmethod
    def from_dict(cls, data):  # pragma: no cover
        raise NotImplementedError


def file_argument(role, fs, files, disk, atoms):
    """What the user hands to logfile= / trajectory= / restart_file=: a path, an open file object, or a ready-made
    observer (Logger / TrajectoryObserver; a RestartObserver needs the simulation and is assigned afterwards)."""
    if fs.get("as") == "path":
        return "/simfs/" + fs["name"]
    f = disk.open(fs["name"], fs.get("mode", "a"))
    if fs.get("as") == "observer" and role != "restart_file":
        interval = files.get("logging_interval", 1)
        if role == "logfile":
            from quansino.io.logger import Logger

            return Logger(logfile=f, interval=interval, mode=fs.get("mode", "a"))
        from quansino.io.trajectory import TrajectoryObserver

        return TrajectoryObserver(atoms=atoms, file=f, interval=interval, mode=fs.get("mode", "a"))
    return f


def _seed_value(sc):
    """The seed as the user hands it over: a Python int or a numpy integer scalar (seeds drawn with
    Generator.integers / taken from an array are numpy integers)."""
    kind = sc.get("seed_kind", "int")
    s = sc["seed"]
    if kind == "np.int64" and s < 2**63:
        return np.int64(s)
    if kind == "np.uint64" and s < 2**64:
        return np.uint64(s)
    if kind == "np.uint32" and s < 2**32:
        return np.uint32(s)
    return s


DRIVERS = ("MonteCarlo", "Canonical", "HamiltonianCanonical", "Isobaric", "Isotension",
           "GrandCanonical")


def driver_class(name: str):
    from quansino.mc.canonical import Canonical, HamiltonianCanonical
    from quansino.mc.core import MonteCarlo
    from quansino.mc.fbmc import AdaptiveForceBias, ForceBias
    from quansino.mc.gcmc import GrandCanonical
    from quansino.mc.isobaric import Isobaric
    from quansino.mc.isotension import Isotension

    return {"MonteCarlo": MonteCarlo, "Canonical": Canonical,
            "HamiltonianCanonical": HamiltonianCanonical, "Isobaric": Isobaric,
            "Isotension": Isotension, "GrandCanonical": GrandCanonical,
            "ForceBias": ForceBias, "AdaptiveForceBias": AdaptiveForceBias}[name]


class World:
    """One simulated deployment: a driver, its atoms, calculator, generator, plug-ins and
    (optionally) files, stepped trial by trial."""

    def __init__(self, scenario: dict, monitors=(), opts: dict | None = None, disk=None):
        _q()
        self.sc = scenario
        self.opts = dict(opts or {})
        self.monitors = list(monitors)
        self.result = RunResult()
        self.digest = Digest()
        self.disk = disk
        self.bare_logs = {}
        self.bare_objs = {}
        self.op_sinks = {}
        self.check_log = []  # per trial: list of (path, attempt#, positions bytes)
        self.trial = -1  # global trial index
        self.current_move = None
        self.in_trial = False
        self.faults = scenario.get("faults", {})
        self.verdict_tape = {int(k): v for k, v in self.faults.get("verdicts", {}).items()}
        self.veto_tape = {int(k): v for k, v in self.faults.get("veto", {}).items()}
        self.trial_offset = int(scenario.get("trial_offset", 0))
        self.crit_events = []  # filled during a trial by TapeCriteria
        self.momenta_events = []
        self.integrate_events = []
        self.aborted = None
        self._build()

    # -- construction ------------------------------------------------------------------
    def _build(self):
        sc = self.sc
        self.atoms = build_atoms(sc["atoms"])
        self.calc_spec = sc["calc"]
        # a calculator object the user already holds (shared between simulations), or a new one
        self.calc = self.opts.get("calc_object") or calcs.make_calc(self.calc_spec)
        self.atoms.calc = self.calc
        if sc.get("calc_used_before") and len(self.atoms):
            # the calculator has already evaluated ANOTHER geometry of these atoms (the user relaxed or inspected the
            # structure, then distorted it): its cache describes a configuration the simulation never sees
            saved = self.atoms.positions.copy()
            self.atoms.positions = saved + 0.173
            try:
                self.atoms.get_potential_energy()
                self.atoms.get_forces()
            except Exception:  # noqa: BLE001 - duck-typed calculators without forces
                pass
            self.atoms.positions = saved
            self.result.count("fault.calculator_used_before")
        cls = driver_class(sc["driver"])
        p = dict(sc.get("params", {}))
        kw = {}
        if "max_cycles" in p and "max_cycles" not in sc.get("omit", ()):
            kw["max_cycles"] = p["max_cycles"]
        kw["seed"] = _seed_value(sc)
        name = sc["driver"]
        # moves handed to the constructor (default_displacement_move= / default_cell_move= / default_exchange_move=):
        # the driver registers them under those names with its default criteria and default probabilities
        self.env = MoveEnv(self)
        for entry in sc.get("moves", []):
            if entry.get("via") == "constructor":
                mv = build_move(entry["move"], self.env, entry["name"])
                self.env.named[entry["name"]] = mv
                kw[entry["name"]] = mv
        files = sc.get("files", {})
        if self.disk is not None:
            for role in ("logfile", "trajectory", "restart_file"):
                if role in files:
                    kw[role] = file_argument(role, files[role], files, self.disk, self.atoms)
            if "logging_interval" in files:
                kw["logging_interval"] = files["logging_interval"]
            if "logging_mode" in files:
                kw["logging_mode"] = files["logging_mode"]
        if name == "MonteCarlo":
            mc = cls(self.atoms, **kw)
        elif name in ("Canonical", "HamiltonianCanonical"):
            mc = cls(self.atoms, temperature=p["temperature"], **kw)
        elif name == "Isobaric":
            if "pressure" in p:
                kw["pressure"] = p["pressure"]
            mc = cls(self.atoms, temperature=p["temperature"], **kw)
        elif name == "Isotension":
            if p.get("external_stress") is not None:
                kw["external_stress"] = np.array(p["external_stress"], dtype=float)
            # (not configured: the argument is left out altogether, the documented default applies)
            if "pressure" in p:
                kw["pressure"] = p["pressure"]
            mc = cls(self.atoms, temperature=p["temperature"], **kw)
        elif name == "GrandCanonical":
            ex = build_atoms(sc["exchange"])
            self.template = ex
            self.template_snapshot = self._atoms_arrays(ex)
            for key in ("chemical_potential", "number_of_exchange_particles"):
                if key in p:
                    kw[key] = p[key]
            mc = cls(self.atoms, exchange_atoms=ex, temperature=p["temperature"], **kw)
            if "accessible_volume" in p:
                mc.accessible_volume = p["accessible_volume"]
        else:
            raise ValueError(name)
        self.mc = mc
        # what the *user* configured (constructor arguments, later property assignments): the reference for
        # "parameters changed on the simulation object apply to the next trial"
        self.user = {k: p.get(k) for k in ("temperature", "pressure", "external_stress", "chemical_potential", "accessible_volume")}
        if name == "GrandCanonical" and self.user.get("accessible_volume") is None:
            self.user["accessible_volume"] = float(abs(np.linalg.det(self.atoms.cell.array)))
        if name == "Isotension" and self.user.get("external_stress") is None:
            self.user["external_stress"] = np.zeros((3, 3)).tolist()
        if self.opts.get("simgen", True):
            self.gen = rngseam.install(mc)
        else:
            self.gen = None
        for i, entry in enumerate(sc["moves"]):
            mname = entry.get("name", f"m{i}")
            if entry.get("via") == "constructor":
                # registered by the constructor; the user may then tune the public fields of the table entry
                st = mc.moves[mname]
                for fld in ("probability", "interval", "minimum_count"):
                    if fld in entry:
                        setattr(st, fld, entry[fld])
                if self.opts.get("tape_criteria", True):
                    st.criteria = TapeCriteria(st.criteria, self, mname)
                continue
            mv = build_move(entry["move"], self.env, mname)
            self.env.named[mname] = mv
            crit = None
            cname = entry.get("criteria")
            if cname == "bare" or (cname is None and entry["move"]["type"] == "bare"):
                log = []
                crit = with_truthiness(BareCriteria, entry.get("criteria_truth"))(entry.get("verdicts", [True]), log)
                self.bare_logs[mname + "#criteria"] = log
                self.bare_objs[mname + "#criteria"] = crit
            elif cname is not None:
                import quansino.mc.criteria as qc

                crit = getattr(qc, cname + "Criteria")()
            try:
                akw = {"criteria": crit, "interval": entry.get("interval", 1), "probability": entry.get("probability", 1.0),
                       "minimum_count": entry.get("minimum_count", 0)}
                if not entry.get("unnamed"):
                    akw["name"] = mname
                mc.add_move(mv, **akw)
                if entry.get("unnamed"):
                    # the user gave no name: the entry lives under whatever name the driver chose
                    mname = next((k for k, st in mc.moves.items() if st.move is mv), mname)
            except ValueError:
                if not self.opts.get("allow_add_move_error"):
                    raise
                self.result.count("add_move.refused")
                continue
            if self.opts.get("tape_criteria", True) and not isinstance(crit, BareCriteria):
                mc.moves[mname].criteria = TapeCriteria(mc.moves[mname].criteria, self, mname)
        if "step_count" in sc:
            mc.step_count = int(sc["step_count"])
        if "rng_state" in sc:
            mc._rng.bit_generator.state = sc["rng_state"]
        for m in self.monitors:
            m.on_build(self)

    # -- probes ------------------------------------------------------------------------
    def make_check_probe(self, path):
        def probe(context=None, *a, **kw):
            ncall = len(self.check_log)
            self.check_log.append((path, np.array(self.atoms.positions, copy=True),
                                   np.array(self.atoms.cell.array, copy=True)))
            v = self.veto_tape.get(self.trial + self.trial_offset)
            if v is None:
                return True
            if v == -1 or ncall < v:
                self.result.count("fault.veto_all" if v == -1 else "fault.veto_some")
                return False
            return True

        return probe

    def forced_verdict(self):
        return self.verdict_tape.get(self.trial + self.trial_offset)

    def on_criteria_enter(self, name, context, inner):
        ev = {"name": name, "positions": np.array(self.atoms.positions, copy=True),
              "cell": np.array(self.atoms.cell.array, copy=True), "n": len(self.atoms)}
        self.crit_events.append(ev)
        for m in self.monitors:
            m.on_criteria_enter(self, name, context, inner, ev)

    def on_criteria_exit(self, name, context, inner, verdict):
        ev = self.crit_events[-1]
        ev["real_verdict"] = verdict
        for m in self.monitors:
            m.on_criteria_exit(self, name, context, inner, verdict, ev)

    def on_momenta_drawn(self, context):
        ev = {"momenta": np.array(self.atoms.get_momenta(), copy=True),
              "ke": float(self.atoms.get_kinetic_energy())}
        self.momenta_events.append(ev)
        for m in self.monitors:
            m.on_momenta_drawn(self, ev)

    # -- snapshots ---------------------------------------------------------------------
    @staticmethod
    def _atoms_arrays(atoms):
        return {k: (str(v.dtype), v.shape, v.tobytes()) for k, v in sorted(atoms.arrays.items())}

    def spec_of_path(self, path: str):
        """The scenario's specification of the elementary move built at `path` ('<entry>', '<entry>.<i>' for the members
        of a sum / wrap, '<entry>.x' for the repeated member of a product); None for moves the package created."""
        parts = path.split(".")
        spec = next((e["move"] for i, e in enumerate(self.sc["moves"]) if e.get("name", f"m{i}") == parts[0]), None)
        for part in parts[1:]:
            if spec is None:
                return None
            if part == "x" and spec.get("type") == "mul":
                spec = spec["item"]
            elif part.isdigit() and spec.get("type") in ("sum", "wrap") and int(part) < len(spec["items"]):
                spec = spec["items"][int(part)]
            else:
                return None
        return spec

    def label_moves(self):
        """(path, move) of every label-bearing elementary move: the ones the user built, plus any the package put
        into the table itself (path '<entry>.live<k>')."""
        out = [(p, m) for p, m in self.env.leaves if hasattr(m, "labels")]
        known = {id(m) for _, m in out}
        mc = getattr(self, "mc", None)
        if mc is not None and hasattr(mc, "moves"):
            for name, st in mc.moves.items():
                for k, lf in enumerate(self.leaves_of(st.move)):
                    if id(lf) not in known and not isinstance(lf, BareMove) and hasattr(lf, "labels"):
                        known.add(id(lf))
                        out.append((f"{name}.live{k}", lf))
        return out

    def snapshot(self) -> dict:
        atoms = self.atoms
        mc = self.mc
        ctx = mc.context
        s = {
            "arrays": self._atoms_arrays(atoms),
            "cell": np.asarray(atoms.cell.array).tobytes(),
            "pbc": np.asarray(atoms.pbc).tobytes(),
            "n": len(atoms),
            "positions": np.array(atoms.positions, copy=True),
            "cellarr": np.array(atoms.cell.array, copy=True),
        }
        uid = atoms.arrays.get("uid")
        s["uid"] = None if uid is None else uid.copy()
        cons = []
        for c in atoms.constraints:
            if isinstance(c, FixAtoms):
                idx = np.asarray(c.index)
                ok = bool(np.all(idx < len(atoms))) if len(idx) else True
                if uid is not None and ok:
                    cons.append(("FixAtoms", tuple(sorted(int(u) for u in uid[idx]))))
                else:
                    cons.append(("FixAtoms#idx", tuple(int(i) for i in idx)))
            else:
                cons.append((type(c).__name__,))
        s["constraints"] = cons
        s["labels"] = {p: np.array(m.labels, copy=True) for p, m in self.label_moves()}
        s["N"] = getattr(ctx, "number_of_exchange_particles", None)
        if hasattr(self, "template"):
            s["template"] = self._atoms_arrays(self.template)
        s["last_e"] = getattr(ctx, "last_potential_energy", None)
        lp = getattr(ctx, "last_positions", None)
        s["last_positions"] = None if lp is None else np.array(lp, copy=True)
        lc = getattr(ctx, "last_cell", None)
        s["last_cell"] = None if lc is None else np.array(np.asarray(lc), copy=True)
        s["nevals"] = getattr(self.calc, "nevals", 0)
        s["rng"] = mc._rng.bit_generator.state["state"]["state"]
        return s

    # -- the stepping loop -------------------------------------------------------------
    def run(self) -> RunResult:
        warnings.simplefilter("ignore")
        np.seterr(all="ignore")
        try:
            for iseg, seg in enumerate(self.sc["steps"]):
                # (before_segment 0: after the simulation object was built, before it is run for the first time)
                self._user_edits(iseg)
                self._run_segment(seg)
                if self.aborted:
                    break
            for m in self.monitors:
                m.on_end(self)
        except SimCrash:
            raise
        except Exception as exc:  # noqa: BLE001
            self._escaped(exc, "outside-trial")
        self.result.digest = self.digest.hex()
        return self.result

    def _user_edits(self, iseg):
        """What a user may do between two run calls: edit the structure through ASE and (re)set constraints."""
        for ed in self.sc.get("edits", []):
            if ed.get("before_segment") != iseg:
                continue
            if ed.get("shift") is not None and len(self.atoms):
                sh = np.array(ed["shift"], dtype=float)
                pos = self.atoms.positions.copy()
                rows = ed.get("rows")
                if rows is None:
                    pos += sh
                else:
                    pos[[r for r in rows if r < len(pos)]] += sh
                self.atoms.positions = pos
            if ed.get("cell_scale") is not None:
                # the user rescales the box (atoms follow) - pre-compression, or the real cell set after construction
                self.atoms.set_cell(np.asarray(self.atoms.cell.array) * float(ed["cell_scale"]), scale_atoms=True)
                self.result.count("fault.user_rescales_cell")
            if ed.get("reassign_outputs") and self.disk is not None:
                # the user hands the same, still open, file objects to the simulation again (e.g. after changing the
                # logging interval): the observers are rebuilt on files the old observers were writing to
                attr = {"trajectory": "default_trajectory", "restart_file": "default_restart"}
                for role in ed["reassign_outputs"]:
                    fs = self.sc.get("files", {}).get(role)
                    if role in attr and isinstance(fs, dict) and fs.get("as") == "object" and fs["name"] in self.disk.files:
                        setattr(self.mc, attr[role], self.disk.files[fs["name"]])
                        self.result.count("fault.outputs_reassigned_on_open_files")
            if ed.get("relabel"):
                # the user reconfigures the elementary moves HE built (the objects he holds) after composing them
                rl = ed["relabel"]
                for path, m in self.env.leaves:
                    if (path == rl["entry"] or path.startswith(rl["entry"] + ".")) and hasattr(m, "set_labels"):
                        m.set_labels(np.array(rl["labels"], dtype=int))
                        self.result.count("fault.user_relabels_between_runs")
            if ed.get("fresh_calculator"):
                # the user attaches a fresh calculator of the same kind (a new instance that never evaluated anything)
                self.calc = calcs.make_calc(self.calc_spec)
                self.atoms.calc = self.calc
                self.result.count("fault.fresh_calculator_between_runs")
            if "constraints" in ed:
                spec = dict(self.sc["atoms"], constraints=ed["constraints"])
                self.atoms.set_constraint(build_atoms(spec).constraints if ed["constraints"] else None)
                self.sc_constraints_now = ed["constraints"]
            self.result.count("fault.user_edit_between_runs")
            for m in self.monitors:
                m.on_user_edit(self, ed)
            cb = self.opts.get("on_user_edit_cb")
            if cb is not None:
                cb(self, ed)

    def _escaped(self, exc, phase):
        info = classify_exception(exc)
        info["phase"] = phase
        info["trial"] = self.trial
        info["move"] = self.current_move
        self.aborted = info
        if info["harness"]:
            self.result.harness_error = info["text"]
            return
        handled = False
        for m in self.monitors:
            if m.on_exception(self, info):
                handled = True
        if not handled:
            self.result.foreign.append({k: info[k] for k in ("type", "where", "owner", "phase")})
            self.result.count("foreign_exception")

    @staticmethod
    def leaves_of(move):
        out = []
        seen = set()

        def walk(m):
            if id(m) in seen:
                return
            seen.add(id(m))
            if isinstance(m, BareMove):
                # a protocol-only user object: the harness must not read its attributes either (they are logged)
                out.append(m)
                return
            subs = getattr(m, "moves", None)
            if isinstance(subs, list):
                for x in subs:
                    walk(x)
            else:
                out.append(m)

        walk(move)
        return out

    def _apply_tapes(self, name):
        t = str(self.trial + self.trial_offset)
        mc = self.mc
        ch = self.sc.get("param_tape", {}).get(t)
        if ch:
            for k, v in ch.items():
                if hasattr(type(mc), k):
                    setattr(mc, k, v)
                    self.user[k] = v
                    self.result.count("fault.param_change")
        pre = self.sc.get("preselect", {}).get(t)
        if pre and name in self.mc.moves and type(self.mc.moves[name].move).__name__ != "CompositeMove":
            from quansino.moves.displacement import DisplacementMove
            from quansino.moves.exchange import ExchangeMove

            leaves = self.leaves_of(self.mc.moves[name].move)
            what = pre["what"]
            if what in ("add", "delete") and not isinstance(self.mc.moves[name].move, ExchangeMove):
                # exchange targets are pre-selected on a stand-alone ExchangeMove only (the documented use): a composite
                # exchange move decides direction and candidates itself and would leave the target behind on its member
                leaves = []
            for lf in leaves:
                if what == "displace" and type(lf) is DisplacementMove and len(lf.unique_labels):
                    lf.to_displace_labels = int(lf.unique_labels[int(pre["pick"] * len(lf.unique_labels))])
                    self.result.count("fault.preselect_displace")
                    continue  # every displacement sub-move of the entry gets the user's target
                if what == "add" and isinstance(lf, ExchangeMove) and hasattr(self, "template"):
                    lf.to_add_atoms = self.template.copy()
                    self.result.count("fault.preselect_add")
                    break
                if what == "delete" and isinstance(lf, ExchangeMove) and len(lf.unique_labels):
                    lf.to_delete_label = int(lf.unique_labels[int(pre["pick"] * len(lf.unique_labels))])
                    self.result.count("fault.preselect_delete")
                    break

    def move_kind(self, name: str) -> str:
        for i, entry in enumerate(self.sc["moves"]):
            if entry.get("name", f"m{i}") == name:
                return spec_kind(entry["move"], self.sc)
        return "?"

    def move_cat(self, name) -> str:
        if name is None:
            return "-"
        for i, entry in enumerate(self.sc["moves"]):
            if entry.get("name", f"m{i}") == name:
                return spec_cat(entry["move"], self.sc)
        return "?"

    def _run_segment(self, seg):
        mc = self.mc
        n = int(seg["n"])
        it = mc.irun(n)
        while True:
            try:
                step_gen = next(it)
            except StopIteration:
                break
            except SimCrash:
                raise
            except Exception as exc:  # noqa: BLE001
                self._escaped(exc, "observers")
                return
            for m in self.monitors:
                m.on_step_begin(self)
            ok = self._run_step(step_gen)
            if not ok:
                return
            self.digest.add("step", mc.step_count, tuple(mc.move_history))
            for m in self.monitors:
                m.on_step_end(self)
            self.result.count("steps")
        for m in self.monitors:
            m.on_segment_end(self)

    def _run_step(self, gen) -> bool:
        mc = self.mc
        try:
            name = next(gen)
        except StopIteration:
            return True
        except Exception as exc:  # noqa: BLE001
            self._escaped(exc, "schedule")
            return False
        while name is not None:
            name = str(name)
            self.trial += 1
            self.current_move = name
            self.check_log = []
            self.crit_events = []
            self.momenta_events = []
            self.integrate_events = []
            for sink in self.op_sinks.values():
                sink.clear()
            self._apply_tapes(name)
            for m in self.monitors:
                m.before_trial(self, name)
            pre = self.snapshot()
            nhist = len(mc.move_history)
            self.in_trial = True
            try:
                try:
                    nxt = next(gen)
                except StopIteration:
                    nxt = None
            except SimCrash:
                raise
            except rngseam.DrawBudgetExceeded:
                raise
            except Exception as exc:  # noqa: BLE001
                self.in_trial = False
                self._escaped(exc, "trial")
                return False
            self.in_trial = False
            post = self.snapshot()
            if len(mc.move_history) != nhist + 1:
                verdict = "missing"
            else:
                hname, raw = mc.move_history[-1]
                self.raw_verdict = raw
                verdict = None if raw is None else bool(raw)
            self.result.count("trials")
            self.result.count(f"verdict.{verdict}")
            self.digest.add("trial", self.trial, name, repr(verdict), post["positions"], post["cellarr"],
                            repr(post["last_e"]))
            for m in self.monitors:
                m.on_trial(self, name, verdict, pre, post)
            name = nxt
        return True


def spec_kind(mspec: dict, sc: dict | None = None) -> str:
    t = mspec["type"]
    if t in ("sum", "wrap"):
        return t + "(" + ",".join(spec_kind(s, sc) for s in mspec["items"]) + ")"
    if t == "mul":
        return f"mul({spec_kind(mspec['item'], sc)})"
    if t == "ref":
        if sc is not None:
            for i, e in enumerate(sc["moves"]):
                if e.get("name", f"m{i}") == mspec["of"]:
                    return "ref:" + spec_kind(_leaf_spec(e["move"], mspec["leaf"]) if "leaf" in mspec else e["move"], sc)
        return "ref"
    if t in ("disp", "exch") and mspec.get("op"):
        return f"{t}:{op_kind(mspec['op'])}"
    if t == "cell":
        return f"cell:{op_kind(mspec['op']) if mspec.get('op') else 'default'}"
    return t


def _leaf_spec(mspec: dict, index: int) -> dict:
    """The specification of the index-th distinct elementary move of a composite specification."""
    out = []

    def walk(m):
        if m["type"] in ("sum", "wrap"):
            for x in m["items"]:
                walk(x)
        elif m["type"] == "mul":
            walk(m["item"])  # the same object n times: one distinct leaf
        else:
            out.append(m)
    walk(mspec)
    return out[min(index, len(out) - 1)]


def spec_cat(mspec: dict, sc: dict | None = None) -> str:
    """Coarse category used in signatures: disp, exch, cell, hmc, bare,
    composite_disp / composite_exch / composite_cell / composite_mixed."""
    t = mspec["type"]
    if t == "ref" and sc is not None:
        for i, e in enumerate(sc["moves"]):
            if e.get("name", f"m{i}") == mspec["of"]:
                return spec_cat(_leaf_spec(e["move"], mspec["leaf"]) if "leaf" in mspec else e["move"], sc)
        return "ref"
    if t in ("sum", "mul", "wrap"):
        items = mspec["items"] if t in ("sum", "wrap") else [mspec["item"]]
        cats = set()
        for it in items:
            c = spec_cat(it, sc)
            cats.add(c[len("composite_"):] if c.startswith("composite_") else c)
        return "composite_" + (cats.pop() if len(cats) == 1 else "mixed")
    return t


def op_kind(ospec: dict) -> str:
    t = ospec["type"]
    if t == "sum":
        return "+".join(op_kind(s) for s in ospec["items"])
    if t == "mul":
        return f"{op_kind(ospec['item'])}*n"
    return t


class Monitor:
    """Base class: every hook is a no-op."""

    prop = "C00"

    def on_build(self, w): ...
    def on_step_begin(self, w): ...
    def before_trial(self, w, name): ...
    def on_criteria_enter(self, w, name, context, inner, ev): ...
    def on_criteria_exit(self, w, name, context, inner, verdict, ev): ...
    def on_momenta_drawn(self, w, ev): ...
    def on_trial(self, w, name, verdict, pre, post): ...
    def on_step_end(self, w): ...
    def on_segment_end(self, w): ...
    def on_user_edit(self, w, ed): ...
    def on_end(self, w): ...

    def on_exception(self, w, info) -> bool:
        """Return True if this monitor claims the escaped exception as a violation."""
        if info["owner"] == self.prop:
            self.violate(w, "exception", f"type={info['type']}|where={info['where']}|driver={w.sc['driver']}"
                         f"|move={w.move_cat(info['move'])}",
                         f"during a {w.move_kind(info['move']) if info['move'] else '-'} trial:\n" + info["text"])
            return True
        return False

    def violate(self, w, invariant, context, detail=""):
        w.result.violations.append(
            Violation(self.prop, invariant, context, detail, at=f"trial={w.trial} step={w.mc.step_count}"))


# --------------------------------------------------------------------------------------
# force-bias drivers
# --------------------------------------------------------------------------------------
class ForcesCalc(calcs.CachingCalc):
    """Caching calculator returning prescribed forces (constant in time per coordinate)
    plus the analytic potential's energy; optional committee data for the adaptive
    driver."""

    style = "prescribed"

    def __init__(self, pot, forces=None, committee=None):
        super().__init__(pot)
        self.prescribed = None if forces is None else np.array(forces, dtype=float)
        self.committee = committee

    def calculate(self, atoms=None, properties=None, system_changes=calcs.all_changes):
        super().calculate(atoms, properties, system_changes)
        if self.prescribed is not None:
            self.results["forces"] = self.prescribed.copy()
        if self.committee:
            com = self.committee
            if "sequence" in com:
                # the committee's spread changes from one evaluation to the next (as it does along a real trajectory)
                self._ncommittee = getattr(self, "_ncommittee", -1) + 1
                com = com["sequence"][self._ncommittee % len(com["sequence"])]
            for k, v in com.items():
                self.results[k] = np.array(v, dtype=float)


class FBWorld:
    """ForceBias / AdaptiveForceBias deployment, stepped one driver step at a time."""

    def __init__(self, scenario: dict, monitors=(), opts=None, disk=None):
        _q()
        self.sc = scenario
        self.opts = dict(opts or {})
        self.monitors = list(monitors)
        self.result = RunResult()
        self.digest = Digest()
        self.disk = disk
        self.aborted = None
        self.trial = -1
        self.current_move = None
        sc = scenario
        self.atoms = build_atoms(sc["atoms"])
        cs = sc["calc"]
        self.calc_spec = cs
        if cs.get("style") == "prescribed":
            self.calc = ForcesCalc(calcs.Potential.from_json(cs["pot"]), cs.get("forces"), cs.get("committee"))
        else:
            self.calc = calcs.make_calc(cs)
        self.atoms.calc = self.calc
        p = dict(sc.get("params", {}))
        kw = {"seed": _seed_value(sc)}
        files = sc.get("files", {})
        if disk is not None:
            for role in ("logfile", "trajectory", "restart_file"):
                if role in files:
                    kw[role] = file_argument(role, files[role], files, disk, self.atoms)
            for k in ("logging_interval", "logging_mode"):
                if k in files:
                    kw[k] = files[k]
        cls = driver_class(sc["driver"])
        with warnings.catch_warnings():
            warnings.simplefilter("ignore")
            if sc["driver"] == "ForceBias":
                delta = p["delta"]
                if isinstance(delta, list):
                    delta = np.array(delta, dtype=float)
                mc = cls(self.atoms, delta=delta, temperature=p["temperature"], **kw)
            else:
                mc = cls(self.atoms, min_delta=p["min_delta"], max_delta=p["max_delta"],
                         temperature=p["temperature"], scheme=p.get("scheme", "forces"),
                         reference_variance=p.get("reference_variance", 0.1),
                         update_function=p.get("update_function", "tanh"), **kw)
        if p.get("update_masses") is not None:
            mc.update_masses(np.array(p["update_masses"], dtype=float))
        msp = p.get("masses_scaling_power")
        if msp is not None:
            mc.masses_scaling_power = np.array(msp, dtype=float) if isinstance(msp, list) else float(msp)
        self.mc = mc
        self.gen = rngseam.install(mc) if self.opts.get("simgen", True) else None
        if "step_count" in sc:
            mc.step_count = int(sc["step_count"])
        for m in self.monitors:
            m.on_build(self)

    def move_kind(self, name):
        return "fbstep"

    def move_cat(self, name):
        return "fbstep"

    def run(self) -> RunResult:
        warnings.simplefilter("ignore")
        np.seterr(all="ignore")
        mc = self.mc
        try:
            for seg in self.sc["steps"]:
                it = mc.irun(int(seg["n"]))
                while True:
                    self.trial += 1
                    pre = {"positions": np.array(self.atoms.positions, copy=True),
                           "nevals": getattr(self.calc, "nevals", 0), "step_count": mc.step_count,
                           "ndraws": self.gen.ndraws if self.gen else 0}
                    for m in self.monitors:
                        m.before_step(self, pre)
                    try:
                        forces = next(it)
                    except StopIteration:
                        break
                    # NB: irun yields *before* incrementing step_count / calling observers
                    post = {"positions": np.array(self.atoms.positions, copy=True),
                            "nevals": getattr(self.calc, "nevals", 0), "forces": np.array(forces, copy=True),
                            "ndraws": self.gen.ndraws if self.gen else 0}
                    self.result.count("steps")
                    self.digest.add("fbstep", mc.step_count, post["positions"])
                    for m in self.monitors:
                        m.on_fbstep(self, pre, post)
                for m in self.monitors:
                    m.on_segment_end(self)
            for m in self.monitors:
                m.on_end(self)
        except (SimCrash, rngseam.DrawBudgetExceeded):
            raise
        except Exception as exc:  # noqa: BLE001
            World._escaped(self, exc, "fbstep")
        self.result.digest = self.digest.hex()
        return self.result


class FBMonitor(Monitor):
    def before_step(self, w, pre): ...
    def on_fbstep(self, w, pre, post): ...


def scribble(w) -> int:
    """After a simulation has finished, its user edits in place every array it can reach through the public surface
    (settings, move labels, operation masks, exchange atoms).  A later simulation built with the same seed and
    configuration in the same process must not notice: nothing may be shared between simulations behind the user's
    back (default arguments, module-level arrays)."""
    n = 0
    mc = w.mc
    for name in ("external_stress", "delta", "masses_scaling_power", "shaped_masses"):
        v = getattr(mc, name, None)
        if isinstance(v, np.ndarray) and v.dtype.kind == "f" and v.flags.writeable:
            v += 0.37
            n += 1
    ex = getattr(mc, "exchange_atoms", None)
    if ex is not None and len(ex):
        ex.positions += 0.37
        n += 1
    if hasattr(mc, "moves"):
        for st in mc.moves.values():
            for lf in World.leaves_of(st.move):
                lab = getattr(lf, "labels", None)
                if isinstance(lab, np.ndarray) and lab.flags.writeable:
                    lab += 3
                    n += 1
                op = getattr(lf, "operation", None)
                for o in [op] + list(getattr(op, "operations", []) or []):
                    m = getattr(o, "mask", None)
                    if isinstance(m, np.ndarray) and m.flags.writeable:
                        m[...] = ~m
                        n += 1
    return n



def make_world(scenario, monitors=(), opts=None, disk=None):
    if scenario["driver"] in ("ForceBias", "AdaptiveForceBias"):
        return FBWorld(scenario, monitors, opts, disk)
    return World(scenario, monitors, opts, disk)
