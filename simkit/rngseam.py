"""The random-generator seam.

`SimGen` is a recording subclass of numpy's Generator built around the driver's *own*
bit generator, so the stream is bit-for-bit the shipped one.  It can

* log every draw (method, shape) for the event digest,
* in *acceptance mode* capture the scalar uniform the criteria draws, and optionally
  replace its value by a scripted one (the real stream is still advanced),
* enforce a draw budget (termination clause of C13).
"""
from __future__ import annotations

import numpy as np
from numpy.random import Generator


class DrawBudgetExceeded(BaseException):
    pass


class SimGen(Generator):
    def __init__(self, bit_generator):
        super().__init__(bit_generator)
        self.drawlog = None  # list or None
        self.ndraws = 0
        self.capture = None  # None, or list collecting scalar uniforms
        self.script = None  # scripted value for the next scalar uniform
        self.budget = None  # max draw *calls* before DrawBudgetExceeded
        self.normals = None  # list collecting standard_normal results (C12: unadjusted momenta)

    def _note(self, name, size):
        self.ndraws += 1
        if self.drawlog is not None:
            self.drawlog.append((name, size if size is None or isinstance(size, int) else tuple(size)))
        if self.budget is not None and self.ndraws > self.budget:
            raise DrawBudgetExceeded(f"more than {self.budget} generator calls")

    def random(self, size=None, *a, **kw):
        self._note("random", size)
        val = super().random(size, *a, **kw)
        if size is None and self.capture is not None:
            if self.script is not None:
                val = self.script
                self.script = None
            self.capture.append(float(val))
        return val

    def uniform(self, low=0.0, high=1.0, size=None):
        self._note("uniform", size)
        return super().uniform(low, high, size)

    def standard_normal(self, size=None, *a, **kw):
        self._note("standard_normal", size)
        out = super().standard_normal(size, *a, **kw)
        if self.normals is not None:
            self.normals.append(np.array(out, copy=True))
        return out

    def normal(self, loc=0.0, scale=1.0, size=None):
        self._note("normal", size)
        return super().normal(loc, scale, size)

    def choice(self, a, size=None, replace=True, p=None, axis=0, shuffle=True):
        self._note("choice", size)
        return super().choice(a, size, replace, p, axis, shuffle)

    def integers(self, *a, **kw):
        self._note("integers", kw.get("size"))
        return super().integers(*a, **kw)

    def permutation(self, *a, **kw):
        self._note("permutation", None)
        return super().permutation(*a, **kw)


def install(mc) -> SimGen:
    """Put a SimGen around the driver's own bit generator in place of mc._rng (and
    mc.context.rng for Monte Carlo drivers)."""
    gen = SimGen(mc._rng.bit_generator)
    mc._rng = gen
    ctx = getattr(mc, "context", None)
    if ctx is not None:
        ctx.rng = gen
    return gen
