"""Simulated file system: what a dying *process* leaves behind.

A `SimFile` is a seekable text file object.  `write` appends to a user-space buffer;
`flush`, `seek`, `truncate`, `close` (and an over-full buffer) push the buffer to the
durable content, which is what survives when the process dies.  Every mutating call is
an *operation* with a global index on the owning `SimDisk`; a fault plan can kill the
process instead of (or in the middle of) operation k, or make it raise `OSError`.

The model is validated against real files by selftest/fidelity.py.
"""
from __future__ import annotations

import errno
import io


class SimCrash(BaseException):
    """The simulated process died.  BaseException so that no `except Exception` or
    `contextlib.suppress(OSError, ...)` in the code under test can swallow it."""


class SimDisk:
    def __init__(self, bufsize: int = 8192, plan: dict | None = None) -> None:
        self.files: dict[str, SimFile] = {}
        self.bufsize = bufsize
        self.nops = 0
        self.oplog: list[tuple] = []  # (index, file, op, arg-len, tag)
        self.plan = plan or {}
        self.tag = ""  # set by the harness: which observer call is in progress
        self.fired: dict[str, int] = {}
        self.dead = False
        self.trace = None  # list: (k, file, op, arg, clone of the disk before op k)

    def clone(self) -> "SimDisk":
        d = SimDisk(self.bufsize, dict(self.plan))
        d.nops = self.nops
        d.tag = self.tag
        for n, f in self.files.items():
            g = SimFile(d, n, f.mode, f.durable)
            g._pending = list(f._pending)
            g._pos = f._pos
            g._closed = f._closed
            d.files[n] = g
        return d

    def open(self, name: str, mode: str = "a") -> "SimFile":
        if name in self.files:
            old = self.files[name]
            keep = "a" in mode or ("+" in mode and "w" not in mode)
            f = SimFile(self, name, mode, durable=old.durable)
            self.files[name] = f
            if not keep and old.durable:
                # O_TRUNC: the old content is gone the moment the file is opened
                self._op(f, "open_truncate", None)
                f.durable = ""
                f._pos = 0
        else:
            f = SimFile(self, name, mode)
            self.files[name] = f
        return f

    # -- fault plan --------------------------------------------------------------------
    def _op(self, f: "SimFile", op: str, arg: str | None) -> str | None:
        """Account for one operation; apply the fault plan.  Returns the (possibly
        shortened) argument to execute with, or raises."""
        if self.dead:
            raise SimCrash("process already dead")
        k = self.nops
        self.nops += 1
        self.oplog.append((k, f.key, op, len(arg) if isinstance(arg, str) else arg, self.tag))
        if self.trace is not None:
            self.nops = k
            self.trace.append((k, f.key, op, arg, self.tag, self.clone()))
            self.nops = k + 1
        plan = self.plan
        if plan and plan.get("at") == k:
            kind = plan.get("kind", "clean")
            self.fired[kind] = self.fired.get(kind, 0) + 1
            frac = plan.get("frac", 0.5)
            if kind == "clean":
                # die between op k-1 and op k; unflushed buffers are lost
                self._die()
            if kind == "torn":
                # die before op k, but an arbitrary prefix of every unflushed buffer had
                # already been handed to the OS (a spilling buffer)
                for g in self.files.values():
                    g._spill(frac)
                self._die()
            if kind == "torn_in":
                # die in the middle of op k: a write is partly buffered and partly spilled
                if op == "write" and arg:
                    f._pending.append(arg)
                    f._spill(frac)
                elif op in ("flush", "seek", "truncate", "close"):
                    f._spill(frac)
                self._die()
            if kind == "oserror":
                # the OS refuses: a prefix is persisted, then OSError is raised to the caller
                code = plan.get("errno", errno.ENOSPC)
                if op == "write" and arg:
                    f._pending.append(arg[: int(len(arg) * frac)])
                    f._spill(1.0)
                elif op in ("flush", "close", "seek", "truncate"):
                    f._spill(frac)
                    f._pending.clear()
                raise OSError(code, "simulated I/O failure")
        return arg

    def _die(self) -> None:
        self.dead = True
        for g in self.files.values():
            g._pending.clear()
        raise SimCrash(f"killed at file operation {self.plan.get('at')}")

    def snapshot(self) -> dict[str, str]:
        return {n: f.durable for n, f in self.files.items()}


class SimFile(io.TextIOBase):
    def __init__(self, disk: SimDisk, name: str, mode: str = "a", durable: str = "") -> None:
        super().__init__()
        self.disk = disk
        self.key = name  # the harness's name of the file on the simulated disk
        self.name = "/simfs/" + name  # what a real file object reports: the path it was opened from
        self.mode = mode
        self.durable = durable
        self._pending: list[str] = []
        self._append = "a" in mode
        self._pos = len(durable) if self._append else 0
        self._closed = False

    # -- helpers -----------------------------------------------------------------------
    def _pending_len(self) -> int:
        return sum(len(s) for s in self._pending)

    def _spill(self, frac: float = 1.0) -> None:
        data = "".join(self._pending)
        self._pending.clear()
        if frac < 1.0:
            data = data[: int(len(data) * frac)]
        if not data:
            return
        if self._append:
            self.durable += data
            self._pos = len(self.durable)
        else:
            d = self.durable
            if self._pos > len(d):
                d = d + "\0" * (self._pos - len(d))
            self.durable = d[: self._pos] + data + d[self._pos + len(data):]
            self._pos += len(data)

    def _check(self) -> None:
        if self._closed:
            raise ValueError("I/O operation on closed file.")

    # -- file API ----------------------------------------------------------------------
    def writable(self) -> bool:
        return True

    def readable(self) -> bool:
        return False

    def seekable(self) -> bool:
        return True

    @property
    def closed(self) -> bool:  # type: ignore[override]
        return self._closed

    def write(self, s: str) -> int:
        self._check()
        if not isinstance(s, str):
            raise TypeError(f"write() argument must be str, not {type(s).__name__}")
        s2 = self.disk._op(self, "write", s)
        self._pending.append(s2)
        if self._pending_len() >= self.disk.bufsize:
            self._spill()
        return len(s)

    def flush(self) -> None:
        if self._closed:
            return
        self.disk._op(self, "flush", None)
        self._spill()

    def seek(self, pos: int, whence: int = 0) -> int:
        self._check()
        self.disk._op(self, "seek", pos)
        self._spill()
        if whence == 0:
            self._pos = pos
        elif whence == 2:
            self._pos = len(self.durable) + pos
        elif whence == 1:
            self._pos += pos
        return self._pos

    def tell(self) -> int:
        self._check()
        self._spill()
        return self._pos

    def truncate(self, size: int | None = None) -> int:
        self._check()
        self.disk._op(self, "truncate", None)
        self._spill()
        if size is None:
            size = self._pos
        d = self.durable
        self.durable = d[:size] if size <= len(d) else d + "\0" * (size - len(d))
        return size

    def close(self) -> None:
        if self._closed:
            return
        if not self.disk.dead:
            self.disk._op(self, "close", None)
            self._spill()
        self._closed = True

    def __del__(self) -> None:  # no op accounting from garbage collection
        self._closed = True


class PathPatch:
    """Route `pathlib.Path.open` for paths under /simfs/ to a SimDisk (harness-side
    monkey patch; the repository is not touched)."""

    ROOT = "/simfs/"

    def __init__(self, disk: SimDisk) -> None:
        self.disk = disk

    def __enter__(self):
        import pathlib

        self._orig = pathlib.Path.open
        disk = self.disk
        orig = self._orig

        def sim_open(self_path, mode="r", *a, **kw):
            p = str(self_path)
            if p.startswith(PathPatch.ROOT):
                return disk.open(p[len(PathPatch.ROOT):], mode)
            return orig(self_path, mode, *a, **kw)

        pathlib.Path.open = sim_open
        return self

    def __exit__(self, *exc):
        import pathlib

        pathlib.Path.open = self._orig
        return False
