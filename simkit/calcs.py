"""Calculator stubs: analytic potentials behind the three caching styles the properties
name (stateless, result-caching, neighbour-list), plus ASE's real LennardJones.

The *potential* is a pure function of (positions, cell, charges); the *style* decides
how an ASE calculator object remembers things.  The harness's reference energy is always
the pure function (or a fresh LennardJones instance), never the calculator under test.
"""
from __future__ import annotations

import numpy as np
from ase.calculators.calculator import Calculator, all_changes
from ase.calculators.lj import LennardJones


class Potential:
    """E = sum_i k/2 |r_i-c|^2 + sum_{i<j} A exp(-r_ij^2/2s^2) - sum_i q_i F.r_i
           + kv/2 (V-V0)^2/V0 + ks/2 sum offdiag(cell)^2          (all terms optional)"""

    def __init__(self, k=0.0, center=(0.0, 0.0, 0.0), A=0.0, s=1.0, field=(0.0, 0.0, 0.0),
                 kv=0.0, V0=1.0, ks=0.0, e0=0.0):
        self.k = float(k)
        self.center = np.asarray(center, dtype=float)
        self.A = float(A)
        self.s = float(s)
        self.field = np.asarray(field, dtype=float)
        self.kv = float(kv)
        self.V0 = float(V0)
        self.ks = float(ks)
        self.e0 = float(e0)  # energy per atom (chemical offset), makes insertion cost tunable

    def to_json(self) -> dict:
        return {"k": self.k, "center": self.center.tolist(), "A": self.A, "s": self.s,
                "field": self.field.tolist(), "kv": self.kv, "V0": self.V0, "ks": self.ks,
                "e0": self.e0}

    @classmethod
    def from_json(cls, d: dict) -> "Potential":
        return cls(**d)

    def _charges(self, atoms):
        q = atoms.arrays.get("initial_charges")
        return q if q is not None else np.zeros(len(atoms))

    def energy_forces(self, atoms):
        pos = atoms.positions
        n = len(pos)
        e = self.e0 * n
        f = np.zeros((n, 3))
        if n and self.k:
            d = pos - self.center
            e += 0.5 * self.k * float(np.sum(d * d))
            f -= self.k * d
        if n > 1 and self.A:
            diff = pos[:, None, :] - pos[None, :, :]
            r2 = np.sum(diff * diff, axis=2)
            g = self.A * np.exp(-r2 / (2 * self.s**2))
            iu = np.triu_indices(n, 1)
            e += float(np.sum(g[iu]))
            np.fill_diagonal(g, 0.0)
            f += np.sum((g / self.s**2)[:, :, None] * diff, axis=1)
        if n and np.any(self.field):
            q = self._charges(atoms)
            e -= float(np.sum(q * (pos @ self.field)))
            f += q[:, None] * self.field[None, :]
        if self.kv or self.ks:
            cell = np.asarray(atoms.cell.array)
            if self.kv:
                v = abs(float(np.linalg.det(cell)))
                e += 0.5 * self.kv * (v - self.V0) ** 2 / self.V0
            if self.ks:
                off = cell - np.diag(np.diag(cell))
                e += 0.5 * self.ks * float(np.sum(off * off))
        return e, f

    def energy(self, atoms) -> float:
        return self.energy_forces(atoms)[0]


# --------------------------------------------------------------------------------------
class CountingMixin:
    nevals = 0
    log: list

    def _count(self, what: str) -> None:
        self.nevals += 1
        if getattr(self, "evlog", None) is not None:
            self.evlog.append(what)


class CachingCalc(Calculator, CountingMixin):
    """ASE's own Calculator base class: caches results for the remembered atoms."""

    implemented_properties = ["energy", "forces"]
    style = "caching"

    def __init__(self, pot: Potential, **kw):
        super().__init__(**kw)
        self.pot = pot
        self.nevals = 0
        self.evlog = None

    def calculate(self, atoms=None, properties=None, system_changes=all_changes):
        super().calculate(atoms, properties, system_changes)
        self._count("calculate")
        e, f = self.pot.energy_forces(self.atoms)
        self.results = {"energy": e, "forces": f}


class StatelessCalc(CachingCalc):
    """An ASE Calculator that never trusts what it remembered: every request is a new
    calculation (check_state always reports a change)."""

    style = "stateless"

    def check_state(self, atoms, tol=1e-15):
        return list(all_changes)


class MinimalCalc:
    """Duck-typed calculator: no `.atoms`, no `.results`, no caching."""

    style = "minimal"

    def __init__(self, pot: Potential):
        self.pot = pot
        self.nevals = 0
        self.evlog = None

    def get_potential_energy(self, atoms=None, force_consistent=False):
        self.nevals += 1
        return self.pot.energy(atoms)

    def get_forces(self, atoms=None):
        self.nevals += 1
        return self.pot.energy_forces(atoms)[1]

    def calculation_required(self, atoms, quantities):
        return True


class CountingLJ(LennardJones, CountingMixin):
    """ASE's real LennardJones (keeps a neighbour list built for a given atom count)."""

    style = "ase_lj"

    def __init__(self, **kw):
        super().__init__(**kw)
        self.nevals = 0
        self.evlog = None
        self.ljkw = kw

    def calculate(self, atoms=None, properties=None, system_changes=all_changes):
        self._count("calculate")
        super().calculate(atoms, properties, system_changes)


class NeighbourListCalc(CachingCalc):
    """Stub with per-atom internal state rebuilt only when `numbers` changed - the way
    ASE's LJ / EAM calculators treat their neighbour lists."""

    style = "nlstub"

    def __init__(self, pot: Potential, **kw):
        super().__init__(pot, **kw)
        self._nl_size = None

    def calculate(self, atoms=None, properties=None, system_changes=all_changes):
        if self._nl_size is None or "numbers" in system_changes:
            self._nl_size = len(atoms)
        if self._nl_size != len(atoms):
            raise ValueError(
                f"neighbour list built for {self._nl_size} atoms used with {len(atoms)}")
        super().calculate(atoms, properties, system_changes)


LJ_DEFAULT = {"sigma": 1.0, "epsilon": 0.05, "rc": 2.5}


def make_calc(spec: dict):
    """spec: {'style': ..., 'pot': {...}} or {'style':'ase_lj','lj':{...}}"""
    style = spec["style"]
    if style == "ase_lj":
        return CountingLJ(**spec.get("lj", LJ_DEFAULT))
    pot = Potential.from_json(spec["pot"])
    return {"caching": CachingCalc, "stateless": StatelessCalc, "minimal": MinimalCalc,
            "nlstub": NeighbourListCalc}[style](pot)


def reference_energy(spec: dict, atoms) -> float:
    """From-scratch energy of `atoms` by an independent evaluation (NaN for a non-finite configuration: an integrator
    blow-up force-accepted by the tape has no energy to compare with; ASE's neighbour list raises on it)."""
    if not (np.all(np.isfinite(atoms.positions)) and np.all(np.isfinite(np.asarray(atoms.cell.array)))):
        return float("nan")
    if spec["style"] == "ase_lj":
        a = atoms.copy()
        a.calc = LennardJones(**spec.get("lj", LJ_DEFAULT))
        return float(a.get_potential_energy())  # (includes the constraints' energy terms)
    e = Potential.from_json(spec["pot"]).energy(atoms)
    return float(e) + _constraint_energy(atoms)


def _constraint_energy(atoms) -> float:
    """What energy-adding constraints (Hookean restraints) contribute to atoms.get_potential_energy()."""
    e = 0.0
    for c in atoms.constraints:
        f = getattr(c, "adjust_potential_energy", None)
        if f is not None:
            e += float(f(atoms))
    return e
