"""simkit - deterministic simulation kernel for the quansino verification checks."""
