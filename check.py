#!/venv/bin/python
"""Single entry point:  check.py <Cxx> --tier quick|thorough [--replay FILE]

VERIF_SEED (default 0) decides every random choice.  See DESIGN.md.
"""
from __future__ import annotations

import argparse
import importlib
import os
import sys

HERE = os.path.dirname(os.path.abspath(__file__))
sys.path.insert(0, HERE)

# re-exec once with a fixed hash seed so that no set/dict order can leak into a run
if os.environ.get("PYTHONHASHSEED") is None:
    os.environ["PYTHONHASHSEED"] = "0"
    os.execv(sys.executable, [sys.executable] + sys.argv)

from simkit import core  # noqa: E402

core.setup_imports()

from simkit import engine  # noqa: E402


def main() -> int:
    ap = argparse.ArgumentParser()
    ap.add_argument("prop")
    ap.add_argument("--tier", default=os.environ.get("VERIF_TIER", "quick"), choices=["quick", "thorough"])
    ap.add_argument("--replay")
    ap.add_argument("--one", type=int, help="execute run index N only and print the digest of its packed result")
    args = ap.parse_args()
    seed = int(os.environ.get("VERIF_SEED", "0"))
    mod = importlib.import_module(f"campaigns.{args.prop.lower()}")
    camp = mod.CAMPAIGN
    print(f"VERIF_SEED={seed} property={args.prop} tier={args.tier} repo_src={core.REPO_SRC}")
    if args.one is not None:
        print("DIGEST", engine.one_digest(camp, args.tier, seed, args.one))
        return 0
    if args.replay:
        return engine.replay(camp, args.replay)
    return engine.main_check(camp, args.tier, seed)


if __name__ == "__main__":
    try:
        rc = main()
    except SystemExit:
        raise
    except BaseException:  # noqa: BLE001 - a crash of the harness itself is never a verdict on the property
        import traceback

        traceback.print_exc()
        print("HARNESS-ERROR: the check itself raised (exit 2, no verdict)")
        rc = 2
    sys.exit(rc)
